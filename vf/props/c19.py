"""C19 Estimators are unbiased where promised; relaxed distributions are consistent.

Discrete estimators (direct, importance sampling, enumeration) are decided *exactly*: the
proposal's ``sample`` is replaced by a stub that returns every tuple of the (small) sample
space in turn, and the probability-weighted sum of the returned values - and of their autograd
gradients - is compared with the exact expectation and its exact gradient computed in pure
Python (vf/oracles/c19_exact.py). No sampling noise is involved anywhere in this module.

Generator classes added in the extension round (oracles unchanged):

* sizes - the batch dimension, the number of categories, the number of Metropolis-Hastings
  samples, the vector size / batch of fixed-cardinality sampling, the vocabulary size and the
  batch of the combinatorial functions are taken from the thresholds 15..2049 (``THRESH``);
  parameters, tables and proposals are then *rules* (a few integers) expanded
  deterministically by ``_materialize`` - a pure function of the case.  Batch elements are
  independent problems: every element still sees its whole sample space exactly once, through
  a per-element rotation of the enumeration order (``rot``).
* memory layouts - the proposal's samples, the values returned by f and the control variate,
  the parameters of the relaxed distributions, the conditioning values and the count tensors are
  also handed over as transposed, offset (slice of a larger tensor) or expanded (stride 0) views.
* values - logits of magnitude 16 / 30 (60 for the relaxed Bernoulli), i.e. probabilities that
  round to exactly 0 or 1 in float32.
* call patterns - one estimator object called for every sample tuple (instead of a fresh one
  per call), a Metropolis-Hastings estimator called twice, a fixed-cardinality distribution
  sampled / expanded / enumerated repeatedly.
* size_grid - a deterministic list with one case per threshold and dimension for the check
  functions of the generated sub-checks (Hypothesis re-uses few distinct sizes per run).
"""
from __future__ import annotations

import itertools
import math

from hypothesis import strategies as st

from ..core import Info, expect_raises, require, subcheck
from .. import fakes
from ..gen import dyadic
from ..oracles import c19_exact as ex

TWO24 = 1 << 24
KINDS = ["bern_joint", "bern_batch", "cat_index", "cat_onehot"]
# sizes that cross typical implementation thresholds (block sizes, special paths)
THRESH = [15, 16, 17, 31, 32, 33, 63, 64, 65, 127, 128, 129, 255, 256, 257, 1023, 1024, 1025, 2049]
LAYOUTS = ["contig", "transposed", "offset"]


_K = st.integers(0, 1 << 16)  # drawn FIRST in every strategy that uses _thresh (see there)


def _thresh(k, limit, lo=0):
    """The threshold selected by the integer k (drawn with _K as the very first choice of the case).

    Hypothesis often completes a random prefix of choices with the simplest values for all later ones, and
    sampled_from / small ranges lean to their first elements: a size drawn late collapsed onto the smallest
    thresholds for whole runs (seed 12345).  Drawn first, and scrambled, k spreads over the list; k = 0 is still
    the smallest size, so shrinking works."""
    xs = [x for x in THRESH if lo <= x <= limit]
    xs = xs + [x for x in xs if x >= 1023]
    return st.just(xs[(k * 40503 + k // 7) % len(xs)])


def _size_class(n):
    return "size_ge_1023" if n >= 1023 else "size_ge_127" if n >= 127 else "size_15_65"


# ------------------------------------------------------------------ rules: big inputs from a few integers


def _grid(k, q=4, lo=-2, hi=2):
    """The k-th value (cyclically) of the dyadic grid {lo, lo + 1/q, ..., hi}."""
    n = int(round((hi - lo) * q)) + 1
    return lo + (k % n) / q


def _rule_rows(rule, rows, cols, lo=-2, hi=2):
    a, c, d = rule["rule"]
    return [[_grid(a * r + c * i + d + (r * i) % 3 + (r // 7), 4, lo, hi) for i in range(cols)] for r in range(rows)]


def _is_rule(x):
    return isinstance(x, dict) and "rule" in x


def _materialize(case):
    """Expand the rules of a case (logits, q_logits, f, cv, proposals ...) into the explicit lists that the
    small cases carry; a pure function of the case.  Cases without rules are returned unchanged."""
    if not any(_is_rule(v) for v in case.values()):
        return case
    case = dict(case)
    kind, B = case.get("kind"), case["B"]
    size = case.get("size", 1)
    S = _nspace(kind, size) if kind in KINDS else None
    for key in ("logits", "q_logits"):
        if _is_rule(case.get(key)):
            rows = _rule_rows(case[key], B, 1 if kind == "bern_batch" else size)
            case[key] = [r[0] for r in rows] if kind == "bern_batch" else rows
    if _is_rule(case.get("f")):
        case["f"] = _rule_rows(case["f"], B, S)
    if _is_rule(case.get("cv")):
        if case["cv"].get("const"):
            base = _rule_rows(case["cv"], B, 1)
            off = [[r[0]] * S for r in base]
        else:
            off = _rule_rows(case["cv"], B, S)
        if case.get("is_log"):
            # log space: c <= f pointwise (see the strategy of direct_exact)
            if case["cv"].get("const"):
                case["cv"] = [[min(case["f"][b]) - abs(off[b][0])] * S for b in range(B)]
            else:
                case["cv"] = [[case["f"][b][s_] - abs(off[b][s_]) for s_ in range(S)] for b in range(B)]
        else:
            case["cv"] = off
    return case


def _relayout(x, layout):
    """Same values as ``x`` (>= 2-D), as a transposed (dims 0 and 1 swapped in memory) or offset view."""
    import torch

    if layout in (None, "contig") or x.dim() < 2:
        return x
    if layout == "transposed":
        return x.transpose(0, 1).contiguous().transpose(0, 1)
    if layout == "offset":
        big = torch.zeros((x.shape[0] + 2, x.shape[1] + 1) + tuple(x.shape[2:]), dtype=x.dtype)
        big = big + 3 if x.dtype.is_floating_point else big
        view = big[1:x.shape[0] + 1, 1:]
        view.copy_(x)
        return view
    raise AssertionError(layout)


def _relayout_grad(x, layout):
    """Differentiable variant for the values returned by f / the control variate (2-D)."""
    import torch

    if layout in (None, "contig") or x.dim() < 2:
        return x
    if layout == "transposed":
        return x.t().contiguous().t()
    big = torch.cat([torch.zeros_like(x[:1]) + 7, x, torch.zeros_like(x[:1]) - 7], 0)
    big = torch.cat([torch.zeros_like(big[:, :1]) + 5, big], 1)
    return big[1:x.shape[0] + 1, 1:]


# ------------------------------------------------------------------ building blocks


def _dt(case):
    import torch

    return torch.float64 if case.get("dtype") == "float64" else torch.float32


def _tol(case, scale, f32=3e-5, f64=1e-9):
    return (f64 if case.get("dtype") == "float64" else f32) * scale


def _nspace(kind, size):
    return len(ex.space_points(kind, size))


def _make_dist(kind, theta):
    import torch

    D = torch.distributions
    if kind == "bern_joint":
        return D.Independent(D.Bernoulli(logits=theta), 1)
    if kind == "bern_batch":
        return D.Bernoulli(logits=theta)
    if kind == "cat_index":
        return D.Categorical(logits=theta)
    return D.OneHotCategorical(logits=theta)


def _points_tensor(kind, size, dtype):
    """(S, *event) tensor holding every point of the sample space in index order."""
    import torch

    pts = ex.space_points(kind, size)
    if kind == "bern_joint":
        return torch.tensor(pts, dtype=dtype)
    if kind == "bern_batch":
        return torch.tensor([p[0] for p in pts], dtype=dtype)
    if kind == "cat_index":
        return torch.tensor([p[0] for p in pts], dtype=torch.long)
    return torch.eye(size, dtype=dtype)


def _sample_for(points, idx_rows, B, layout=None):
    """idx_rows: list (mc) of point indices, or list (mc) of lists (B) of point indices."""
    import torch

    idx = torch.tensor([[r] * B if isinstance(r, int) else list(r) for r in idx_rows], dtype=torch.long)  # (mc, B)
    return _relayout(points[idx], layout)  # (mc, B, *event)


def _index_of(kind, size, b):
    """sample tensor (..., *event) -> long index into S of shape (...)."""
    import torch

    if kind == "bern_joint":
        w = torch.tensor([2 ** i for i in range(size)], dtype=b.dtype)
        return (b * w).sum(-1).round().long()
    if kind == "bern_batch":
        return b.round().long()
    if kind == "cat_index":
        return b.long()
    return b.argmax(-1)


def _table_func(tab, kind, size, calls=None, out_layout=None):
    """f(b)[m, n] = tab[n, index(b[m, n])]; tab is a (B, S) tensor (possibly requiring grad).
    ``out_layout``: the returned (mc, B) tensor is a transposed / offset view instead of contiguous."""

    def func(b):
        idx = _index_of(kind, size, b)  # (mc, B)
        if calls is not None:
            calls.append(tuple(idx.shape))
        out = tab.unsqueeze(0).expand(idx.shape[0], -1, -1).gather(2, idx.unsqueeze(-1)).squeeze(-1)
        return _relayout_grad(out, out_layout)

    return func


def _point_probs_torch(kind, size, theta):
    """(B, S) probabilities as a differentiable function of theta, written out with elementary ops."""
    import torch

    if kind in ("bern_joint", "bern_batch"):
        th = theta if kind == "bern_joint" else theta.unsqueeze(-1)
        p = torch.sigmoid(th)  # (B, n)
        pts = torch.tensor(ex.space_points(kind, size), dtype=theta.dtype)  # (S, n)
        pr = p.unsqueeze(1) * pts.unsqueeze(0) + (1 - p.unsqueeze(1)) * (1 - pts.unsqueeze(0))  # (B, S, n)
        return pr.prod(-1)
    return torch.softmax(theta, -1)


def _stub_sample(dist, queue, log):
    """Replace dist.sample by a stub popping pre-computed tensors from queue."""

    def sample(sample_shape=()):
        require(len(queue) > 0, "the estimator drew more samples than the oracle scripted", None, None, kind="harness")
        s = queue.pop(0)
        log.append(tuple(int(x) for x in sample_shape))
        return s

    dist.sample = sample


def _logits_strategy(kind, B, size, extreme=False):
    val = st.one_of(dyadic(4, -2, 2), dyadic(4, -2, 2), st.sampled_from([0.0, -3.0, 3.0]))
    if extreme:
        # probabilities that round to exactly 0 or 1 in float32
        val = st.one_of(st.sampled_from([-30.0, -16.0, 16.0, 30.0]), val)  # first: Hypothesis leans to the first branch
    if kind == "bern_batch":
        return st.lists(val, min_size=B, max_size=B)
    return st.lists(st.lists(val, min_size=size, max_size=size), min_size=B, max_size=B)


def _table_strategy(B, S, lo=-2, hi=2):
    val = st.one_of(dyadic(4, lo, hi), st.sampled_from([0.0, 1.0]))
    return st.lists(st.lists(val, min_size=S, max_size=S), min_size=B, max_size=B)


@st.composite
def _space(draw, kinds=KINDS):
    kind = draw(st.sampled_from(kinds))
    B = draw(st.integers(1, 2))
    if kind == "bern_joint":
        size = draw(st.integers(1, 3))
    elif kind == "bern_batch":
        size = 1
        B = draw(st.integers(1, 3))
    else:
        size = draw(st.integers(2, 4))
    return kind, B, size


@st.composite
def _big_space(draw, tier, k, kinds=KINDS, s_limit=None, whats=("B", "B", "S")):
    """(kind, B, size, what): the batch ("B") or the sample space ("S") taken from THRESH; mc is 1 for "S"."""
    thorough = tier == "thorough"
    what = draw(st.sampled_from(list(whats)))
    kind = draw(st.sampled_from(kinds))
    if what == "S" and kind == "bern_batch":
        kind = "cat_index" if "cat_index" in kinds else kinds[-1]
    if what == "B":
        B = draw(_thresh(k, 1025 if thorough else 257))
        size = 1 if kind == "bern_batch" else draw(st.integers(1, 2)) if kind == "bern_joint" else draw(st.integers(2, 3))
    else:
        B = draw(st.integers(1, 2))
        if kind == "bern_joint":
            size = draw(st.integers(4, 6 if thorough else 5))  # 16 .. 64 joint configurations
        else:
            size = draw(_thresh(k, s_limit or (257 if thorough else 65)))
    return kind, B, size, what


def _rule():
    return st.fixed_dictionaries({"rule": st.tuples(st.integers(0, 20), st.integers(0, 20), st.integers(0, 40)).map(list)})


@st.composite
def _call_extras(draw, mc, S, big=None):
    """Enumeration order per batch element, memory layouts of samples / function values, estimator reuse."""
    out = {}
    if big == "B" or draw(st.integers(0, 3)) == 0:
        out["rot"] = [draw(st.integers(0 if big != "B" else 1, max(S - 1, 1))) for _ in range(mc)]
    lay = draw(st.sampled_from(["contig", "contig"] + LAYOUTS[1:]))
    if lay != "contig":
        out["sample_layout"] = lay
    lay = draw(st.sampled_from(["contig", "contig"] + LAYOUTS[1:]))
    if lay != "contig":
        out["f_layout"] = lay
    if draw(st.integers(0, 2)) == 0:
        out["reuse"] = True
    return out


def _rows_for(case, tup, B, S):
    """Point index of every batch element for every Monte-Carlo sample of the tuple: element b enumerates its
    sample space in an order rotated by rot[m] * b, so that batch elements do not move in lockstep."""
    rot = case.get("rot")
    if not rot:
        return [[s] * B for s in tup]
    return [[(s + rot[m % len(rot)] * b) % S for b in range(B)] for m, s in enumerate(tup)]


def _extra_classes(case, classes, big_size=None):
    if case.get("rot") and any(case["rot"]):
        classes.append("per_element_rotation")
    if case.get("sample_layout"):
        classes.append("samples_" + case["sample_layout"])
    if case.get("f_layout"):
        classes.append("f_values_" + case["f_layout"])
    if case.get("reuse"):
        classes.append("estimator_reused")
    if case.get("big"):
        classes.append("big_" + case["big"])
        classes.append(_size_class(big_size))
    rows = case["logits"] if isinstance(case.get("logits"), list) else []
    flat = [x for r in rows for x in (r if isinstance(r, list) else [r])]
    if any(abs(x) >= 16 for x in flat):
        classes.append("extreme_logits")


def _row(case, b):
    return case["logits"][b]


def _nonuniform(case):
    flat = list(itertools.chain.from_iterable(x if isinstance(x, list) else [x] for x in case["logits"]))
    if case["kind"].startswith("cat"):
        return any(len(set(r)) > 1 for r in case["logits"])
    return any(x != 0 for x in flat)


def _nonconstant(tab):
    return any(len(set(str(x) for x in r)) > 1 for r in tab)


def _lin(case, tab):
    """Values of F in linear space (tables are log F when is_log)."""
    if case["is_log"]:
        return [[math.exp(x) if x != "-inf" else 0.0 for x in r] for r in tab]
    return [[float(x) for x in r] for r in tab]


def _tab_tensor(tab, dtype):
    import torch

    return torch.tensor([[float("-inf") if x == "-inf" else float(x) for x in r] for r in tab], dtype=dtype)


def _compare(case, what, got, exp, scale):
    tol = _tol(case, scale)
    require(abs(got - exp) <= tol, what, got, exp)


# ------------------------------------------------------------------ A. DirectEstimator


def _direct_strategy(tier):
    @st.composite
    def build(draw):
        k = draw(_K)
        if draw(st.integers(0, 5)) == 0:
            kind, B, size, what = draw(_big_space(tier, k))
            S = _nspace(kind, size)
            is_log = draw(st.booleans())
            mc = 1 if what == "S" else draw(st.sampled_from([1, 2]))
            case = {"kind": kind, "B": B, "size": size, "is_log": is_log, "mc": mc, "big": what,
                    "dtype": draw(st.sampled_from(["float32", "float32", "float64"])),
                    "logits": draw(_rule()), "f": draw(_rule())}
            cvk = draw(st.sampled_from(["none", "table", "const"]))
            case["cv"] = None if cvk == "none" else dict(draw(_rule()), const=cvk == "const")
            case.update(draw(_call_extras(mc, S, what)))
            return case
        kind, B, size = draw(_space())
        S = _nspace(kind, size)
        is_log = draw(st.booleans())
        case = {"kind": kind, "B": B, "size": size, "is_log": is_log,
                "mc": draw(st.sampled_from([1, 2, 2] if S <= 8 else [1, 2])),
                "dtype": draw(st.sampled_from(["float32", "float32", "float64"])),
                "logits": draw(_logits_strategy(kind, B, size, extreme=draw(st.integers(0, 3)) == 0)),
                "f": draw(_table_strategy(B, S))}
        if tier == "thorough" and S <= 4 and draw(st.integers(0, 4)) == 0:
            case["mc"] = 3
        cvk = draw(st.sampled_from(["none", "table", "table", "const"]))
        if is_log and draw(st.integers(0, 3)) == 0:
            # f = 0 at some points (log f = -inf), as in the repository's own LogFunc
            zero = draw(st.lists(st.lists(st.booleans(), min_size=S, max_size=S), min_size=B, max_size=B))
            case["f"] = [["-inf" if z else x for x, z in zip(r, zr)] for r, zr in zip(case["f"], zero)]
            cvk = "none"
        if cvk == "none":
            case["cv"] = None
        elif is_log:
            # log space: c <= f pointwise keeps every control-variated sample mean positive
            # (its logarithm is what the estimator returns)
            off = draw(_table_strategy(B, S, 0, 2)) if cvk == "table" else [[draw(dyadic(4, 0, 2))] * S for _ in range(B)]
            if cvk == "const":
                lo = [min(r) for r in case["f"]]
                case["cv"] = [[lo[b] - abs(off[b][0])] * S for b in range(B)]
            else:
                case["cv"] = [[case["f"][b][s] - abs(off[b][s]) for s in range(S)] for b in range(B)]
        else:
            case["cv"] = draw(_table_strategy(B, S)) if cvk == "table" else [[draw(dyadic(4, -2, 2))] * S for _ in range(B)]
        case.update(draw(_call_extras(case["mc"], S)))
        return case

    return build()


def _exact(case, tab_lin):
    kind, B, size = case["kind"], case["B"], case["size"]
    E = [ex.expectation(kind, size, _row(case, b), tab_lin[b]) for b in range(B)]
    G = [ex.expectation_grad(kind, size, _row(case, b), tab_lin[b]) for b in range(B)]
    P = [ex.point_probs(kind, size, _row(case, b)) for b in range(B)]
    return E, G, P


def _flat(x):
    return x if isinstance(x, list) else [x]


def _accumulate(case, run_one, nprop_params):
    """Probability-weighted sums of value and gradients over all mc-tuples of the sample space.

    run_one(rows) -> (value tensor (B,), [grad tensors...]) where rows[m][b] is the point handed to batch
    element b as its m-th sample; weights are products of the *proposal's* point probabilities of each batch
    element.  Every element sees every tuple of its own sample space exactly once (``_rows_for``)."""
    kind, B, size = case["kind"], case["B"], case["size"]
    S = _nspace(kind, size)
    Q = [ex.point_probs(kind, size, case[nprop_params][b]) for b in range(B)]
    Ev = [0.0] * B
    Eg = None
    for tup in ex.tuples(S, case["mc"]):
        rows = _rows_for(case, tup, B, S)
        val, grads = run_one(rows)
        # the statement is about values: a leading singleton dimension (DirectEstimator in log space
        # returns (1,) + batch_shape although the documentation says batch_shape) is tolerated here
        require(val.numel() == B, "estimate must have one value per batch element", list(val.shape), [B])
        vals = val.reshape(-1).tolist()
        glists = [g.reshape(B, -1).tolist() for g in grads]
        if Eg is None:
            Eg = [[[0.0] * len(gl[b]) for b in range(B)] for gl in glists]
        for b in range(B):
            w = 1.0
            for r in rows:
                w *= Q[b][r[b]]
            Ev[b] += w * vals[b]
            for k, gl in enumerate(glists):
                acc = Eg[k][b]
                for i, x in enumerate(gl[b]):
                    acc[i] += w * x
    return Ev, Eg


def _check_against_exact(case, name, Ev, Eg_theta, Eg_tab, tab_lin, scale, target="logits", const=1.0):
    kind, B, size = case["kind"], case["B"], case["size"]
    E = [const * ex.expectation(kind, size, case[target][b], tab_lin[b]) for b in range(B)]
    for b in range(B):
        _compare(case, "%s: mean of the estimate over the whole sample space != exact expectation (batch %d)" % (name, b),
                 Ev[b], E[b], scale)
    for b in range(B):
        g = [const * x for x in _flat(ex.expectation_grad(kind, size, case[target][b], tab_lin[b]))]
        for i, x in enumerate(g):
            _compare(case, "%s: mean of the gradient w.r.t. parameter %d of batch %d != exact gradient" % (name, i, b),
                     Eg_theta[b][i], x, scale)
    if Eg_tab is not None:
        for b in range(B):
            P = ex.point_probs(kind, size, case[target][b])
            for s in range(len(P)):
                # d E / d tab[b][s] = P(s)  (times F(s) when the table holds log F)
                e = const * P[s] * (tab_lin[b][s] if case["is_log"] else 1.0)
                _compare(case, "%s: mean of the gradient w.r.t. f's table entry %d of batch %d != exact" % (name, s, b),
                         Eg_tab[b][s], e, scale)


@subcheck("C19", "direct_exact", _direct_strategy, 500, 12000,
          doc="DirectEstimator over 1-3 joint Bernoulli variables / a Bernoulli batch / one categorical (index or one-hot), f and control variate = generated tables, differentiable cv mean, mc 1-2 (3), log and linear space: sum over all sample tuples of P(tuple)*estimate and of P(tuple)*grad == exact expectation and exact gradient (pure Python); 1 case in 6: batch of 15..257 (1025) elements or 15..65 (257) categories / 4-5 (6) joint variables, parameters and tables expanded from rules; samples and function values also as transposed / offset views; per-element rotation of the enumeration order; one estimator object reused for all tuples; logits of magnitude 16 / 30",
          required_classes=["cv_nonconstant", "mc_2", "is_log", "no_cv", "kind_bern_joint", "kind_cat_index", "kind_cat_onehot", "kind_bern_batch",
                            "big_B", "big_S", "per_element_rotation", "samples_transposed", "samples_offset",
                            "f_values_transposed", "f_values_offset", "estimator_reused", "extreme_logits"])
def _direct_check(case):
    import torch
    from pydrobert.torch.estimators import DirectEstimator

    case = _materialize(case)
    kind, B, size, mc, is_log = case["kind"], case["B"], case["size"], case["mc"], case["is_log"]
    dt = _dt(case)
    theta = torch.tensor(case["logits"], dtype=dt, requires_grad=True)
    tab = _tab_tensor(case["f"], dt).requires_grad_()
    points = _points_tensor(kind, size, dt)
    dist = _make_dist(kind, theta)
    func = _table_func(tab, kind, size, out_layout=case.get("f_layout"))
    ctab = None if case["cv"] is None else _tab_tensor(case["cv"], dt)
    cvf = None if ctab is None else _table_func(ctab, kind, size, out_layout=case.get("f_layout"))
    queue, log = [], []
    _stub_sample(dist, queue, log)

    def make():
        cv_mean = None
        if ctab is not None:
            P = _point_probs_torch(kind, size, theta)
            cv_mean = (P * ctab.exp()).sum(-1).log() if is_log else (P * ctab).sum(-1)
        return DirectEstimator(dist, func, mc, cvf, cv_mean, is_log)

    shared = make() if case.get("reuse") else None  # call pattern: one estimator object for every tuple

    def run_one(rows):
        queue.append(_sample_for(points, rows, B, case.get("sample_layout")))
        est = shared if shared is not None else make()
        v = est()
        require(log[-1] == (mc,), "estimator must request mc_samples samples", log[-1], [mc])
        val = v.exp() if is_log else v
        grads = torch.autograd.grad(val.sum(), [theta, tab], allow_unused=True, retain_graph=True)
        grads = [torch.zeros_like(p) if g is None else g for g, p in zip(grads, (theta, tab))]
        return val.detach(), grads

    Ev, Eg = _accumulate(case, run_one, "logits")
    tab_lin = _lin(case, case["f"])
    scale = 1.0 + max(abs(x) for r in tab_lin for x in r)
    if case["cv"] is not None:
        scale += max(abs(x) for r in _lin(case, case["cv"]) for x in r)
    _check_against_exact(case, "DirectEstimator", Ev, Eg[0], Eg[1], tab_lin, scale)
    classes = ["kind_" + kind, "mc_%d" % mc, "is_log" if is_log else "linear", case.get("dtype", "float32")]
    if any(x == "-inf" for r in case["f"] for x in r):
        classes.append("f_zero_somewhere")
    if case["cv"] is None:
        classes.append("no_cv")
    elif _nonconstant(case["cv"]):
        classes.append("cv_nonconstant")
    else:
        classes.append("cv_constant")
    _extra_classes(case, classes, B if case.get("big") == "B" else _nspace(kind, size))
    return Info(nontrivial=_nonconstant(case["f"]) and _nonuniform(case), classes=classes)


# ------------------------------------------------------------------ B. ImportanceSamplingEstimator


def _is_strategy(tier):
    @st.composite
    def build(draw):
        k = draw(_K)
        if draw(st.integers(0, 5)) == 0:
            kind, B, size, what = draw(_big_space(tier, k))
            S = _nspace(kind, size)
            mc = 1 if what == "S" else draw(st.sampled_from([1, 2]))
            case = {"kind": kind, "B": B, "size": size, "is_log": draw(st.booleans()), "mc": mc, "big": what,
                    "dtype": draw(st.sampled_from(["float32", "float32", "float64"])),
                    "logits": draw(_rule()), "q_logits": draw(_rule()), "f": draw(_rule()),
                    "log_scale": draw(st.sampled_from([0.0, 0.0, -1.0, 0.5])),
                    "same_object": draw(st.sampled_from([False, False, False, True]))}
            if case["same_object"]:
                case["q_logits"] = case["logits"]
            case.update(draw(_call_extras(mc, S, what)))
            return case
        kind, B, size = draw(_space())
        S = _nspace(kind, size)
        case = {"kind": kind, "B": B, "size": size, "is_log": draw(st.booleans()),
                "mc": draw(st.sampled_from([1, 2, 2] if S <= 8 else [1, 2])),
                "dtype": draw(st.sampled_from(["float32", "float32", "float64"])),
                "logits": draw(_logits_strategy(kind, B, size)),
                "q_logits": draw(_logits_strategy(kind, B, size)),
                "f": draw(_table_strategy(B, S)),
                "log_scale": draw(st.sampled_from([0.0, 0.0, -1.0, 0.5]))}
        # the target itself used as the proposal (one and the same distribution object)
        case["same_object"] = draw(st.sampled_from([False, False, False, True]))
        if case["same_object"]:
            case["q_logits"] = case["logits"]
        elif draw(st.integers(0, 5)) == 0:
            # a proposal that all but excludes an outcome the target likes: likelihood ratios of e^50 and more (float64, one
            # sample per call, so that each call's value is one exactly representable product)
            case["dtype"], case["mc"], case["extreme_proposal"] = "float64", 1, True
            for row in case["q_logits"]:
                if kind == "bern_batch":
                    row_i = None
                else:
                    row[draw(st.integers(0, len(row) - 1))] = draw(st.sampled_from([-50.0, 50.0, -60.0, 75.0]))
            if kind == "bern_batch":
                case["q_logits"] = [draw(st.sampled_from([-50.0, 50.0, -60.0, 75.0])) if draw(st.booleans()) or i == 0 else x
                                    for i, x in enumerate(case["q_logits"])]
        case.update(draw(_call_extras(case["mc"], S)))
        return case

    return build()


@subcheck("C19", "importance_exact", _is_strategy, 500, 12000,
          doc="ImportanceSamplingEstimator (not self-normalised), proposal Q != target P (both generated, Q dominating), optionally unnormalised P: sum over all Q-tuples of Q(tuple)*estimate and *grad == sum_b P(b) f(b) and its exact gradient w.r.t. P's parameters; gradient w.r.t. Q's parameters is 0 in every call (documented); 1 case in 6 with a batch of 15..257 (1025) elements or 15..65 (257) categories from rules; samples / function values as transposed / offset views; per-element rotation; estimator object reused; 1 case in 8 (float64, one sample per call) with a proposal logit of +-50..75: likelihood ratios beyond e^44",
          required_classes=["proposal_differs", "mc_2", "is_log", "unnormalised", "target_object_is_proposal",
                            "big_B", "big_S", "per_element_rotation", "samples_transposed", "samples_offset",
                            "f_values_transposed", "f_values_offset", "estimator_reused", "likelihood_ratio_above_e44"])
def _is_check(case):
    import torch
    from pydrobert.torch.estimators import ImportanceSamplingEstimator

    case = _materialize(case)
    kind, B, size, mc, is_log = case["kind"], case["B"], case["size"], case["mc"], case["is_log"]
    dt = _dt(case)
    theta = torch.tensor(case["logits"], dtype=dt, requires_grad=True)
    phi = torch.tensor(case["q_logits"], dtype=dt, requires_grad=True)
    tab = _tab_tensor(case["f"], dt).requires_grad_()
    points = _points_tensor(kind, size, dt)
    target = _make_dist(kind, theta)
    same = bool(case.get("same_object"))
    proposal = target if same else _make_dist(kind, phi)
    k = case["log_scale"]

    class Shifted:
        def log_prob(self, value):
            return target.log_prob(value) + k

    density = target if k == 0.0 else Shifted()
    func = _table_func(tab, kind, size, out_layout=case.get("f_layout"))
    queue, log = [], []
    _stub_sample(proposal, queue, log)
    shared = ImportanceSamplingEstimator(proposal, func, mc, density, False, is_log) if case.get("reuse") else None

    def run_one(rows):
        queue.append(_sample_for(points, rows, B, case.get("sample_layout")))
        est = shared if shared is not None else ImportanceSamplingEstimator(proposal, func, mc, density, False, is_log)
        v = est()
        val = v.exp() if is_log else v
        grads = torch.autograd.grad(val.sum(), [theta, tab, phi], allow_unused=True, retain_graph=True)
        gphi = None if same else grads[2]
        if gphi is not None:
            require(bool((gphi == 0).all()), "gradient w.r.t. the proposal's parameters must be 0", gphi.tolist(), 0)
        grads = [torch.zeros_like(p) if g is None else g for g, p in zip(grads[:2], (theta, tab))]
        return val.detach(), grads

    Ev, Eg = _accumulate(case, run_one, "q_logits")
    tab_lin = _lin(case, case["f"])
    # importance weights P/Q can be large: the float error scales with them
    ratio = 1.0
    for b in range(B):
        P = ex.point_probs(kind, size, case["logits"][b])
        Q = ex.point_probs(kind, size, case["q_logits"][b])
        ratio = max(ratio, max(p / q for p, q in zip(P, Q)))
    if case.get("extreme_proposal"):
        # one sample per call: Q(b) * (P(b) / Q(b) * f(b)) carries a relative error only, however large the ratio
        ratio = 1.0
    scale = (1.0 + max(abs(x) for r in tab_lin for x in r)) * ratio * math.exp(max(k, 0.0))
    _check_against_exact(case, "ImportanceSamplingEstimator", Ev, Eg[0], Eg[1], tab_lin, scale, const=math.exp(k))
    classes = ["kind_" + kind, "mc_%d" % mc, "is_log" if is_log else "linear", case.get("dtype", "float32")]
    if case["logits"] != case["q_logits"]:
        classes.append("proposal_differs")
    if k != 0.0:
        classes.append("unnormalised")
    if same:
        classes.append("target_object_is_proposal")
    if case.get("extreme_proposal"):
        classes.append("likelihood_ratio_above_e44")
    _extra_classes(case, classes, B if case.get("big") == "B" else _nspace(kind, size))
    return Info(nontrivial=_nonconstant(case["f"]) and _nonuniform(case) and (same or case["logits"] != case["q_logits"]), classes=classes)


# ------------------------------------------------------------------ C. EnumerateEstimator


def _enum_strategy(tier):
    @st.composite
    def build(draw):
        k = draw(_K)
        pick = draw(st.integers(0, 7))
        if pick == 0:
            total = draw(st.integers(0, 4))
            given = draw(st.integers(0, total))
            out = draw(st.sampled_from([total, total, total + 1])) or 1
            B = draw(st.integers(1, 2))
            return {"kind": "srswor", "B": B, "total": total, "given": given, "out": out,
                    "batched": draw(st.booleans()), "is_log": draw(st.booleans()),
                    "dtype": "float32", "f": draw(_table_strategy(B, 2 ** out))}
        if pick == 1:
            # larger fixed-cardinality supports (C(10, 5) = 252 vectors picked out of 2^10), table from a rule
            total = draw(st.integers(5, 10 if tier == "thorough" else 9))
            given = draw(st.integers(0, total))
            return {"kind": "srswor", "B": 1, "total": total, "given": given, "out": total + draw(st.integers(0, 1)),
                    "batched": draw(st.booleans()), "is_log": draw(st.booleans()), "dtype": "float32", "f": draw(_rule()),
                    "big": "S"}
        if pick in (2, 3):
            # single call: the number of categories may reach 1025 (2049), the batch 257 (1025)
            kind, B, size, what = draw(_big_space(tier, k, ["bern_batch", "cat_index", "cat_onehot"],
                                                  s_limit=2049 if tier == "thorough" else 1025, whats=("B", "S", "S")))
            case = {"kind": kind, "B": B, "size": size, "is_log": draw(st.booleans()), "mc": 1, "big": what,
                    "dtype": draw(st.sampled_from(["float32", "float64"])), "logits": draw(_rule()), "f": draw(_rule())}
            lay = draw(st.sampled_from(LAYOUTS))
            if lay != "contig":
                case["f_layout"] = lay
            return case
        kind, B, size = draw(_space(["bern_batch", "cat_index", "cat_onehot"]))
        S = _nspace(kind, size)
        case = {"kind": kind, "B": B, "size": size, "is_log": draw(st.booleans()), "mc": 1,
                "dtype": draw(st.sampled_from(["float32", "float64"])),
                "logits": draw(_logits_strategy(kind, B, size, extreme=draw(st.integers(0, 3)) == 0)), "f": draw(_table_strategy(B, S))}
        if case["is_log"] and draw(st.integers(0, 3)) == 0:
            # f = 0 at some (not all) points of each row: the logarithm of a zero estimate has no gradient
            zero = draw(st.lists(st.lists(st.booleans(), min_size=S, max_size=S), min_size=B, max_size=B))
            case["f"] = [["-inf" if (z and i) else x for i, (x, z) in enumerate(zip(r, zr))] for r, zr in zip(case["f"], zero)]
        lay = draw(st.sampled_from(["contig", "contig"] + LAYOUTS[1:]))
        if lay != "contig":
            case["f_layout"] = lay
        return case

    return build()


@subcheck("C19", "enumerate_exact", _enum_strategy, 400, 8000,
          doc="EnumerateEstimator over Bernoulli batches, categoricals (index / one-hot) and fixed-cardinality vectors with f = generated table: value and gradients (parameters, f's table) == exact expectation / gradient; 1 case in 4 with 15..1025 (2049) categories or a batch of 15..257 (1025) from rules, 1 in 8 fixed-cardinality vectors of size 5..9 (10); function values also as transposed / offset views; logits of magnitude 16 / 30",
          required_classes=["kind_srswor", "kind_bern_batch", "kind_cat_index", "kind_cat_onehot", "is_log",
                            "big_B", "big_S", "f_values_transposed", "f_values_offset", "extreme_logits"])
def _enum_check(case):
    import torch
    from pydrobert.torch.estimators import EnumerateEstimator

    if case["kind"] == "srswor" and _is_rule(case.get("f")):
        case = dict(case, f=_rule_rows(case["f"], case["B"], 2 ** case["out"]))
    case = _materialize(case)
    kind, B, is_log = case["kind"], case["B"], case["is_log"]
    dt = _dt(case)
    tab = _tab_tensor(case["f"], dt).requires_grad_()
    tab_lin = _lin(case, case["f"])
    scale = 1.0 + max(abs(x) for r in tab_lin for x in r)
    classes = ["kind_" + kind, "is_log" if is_log else "linear"]
    if kind == "srswor":
        from pydrobert.torch.distributions import SimpleRandomSamplingWithoutReplacement as SRS

        T, L, out = case["total"], case["given"], case["out"]
        if case["batched"]:
            dist = SRS(torch.tensor([L] * B), torch.tensor([T] * B), out)
        else:
            dist = SRS(L, T, out)
        func = _table_func(tab if case["batched"] else tab[:1], "bern_joint", out)
        est = EnumerateEstimator(dist, (lambda b: func(b.unsqueeze(1)).squeeze(1)) if not case["batched"] else func, is_log)
        v = est()
        nb = B if case["batched"] else 1
        require(tuple(v.shape) == ((B,) if case["batched"] else ()), "estimate must have the proposal's batch shape", list(v.shape), None)
        val = v.exp() if is_log else v
        (gtab,) = torch.autograd.grad(val.sum(), [tab], allow_unused=True)
        gtab = torch.zeros_like(tab) if gtab is None else gtab
        combos = [c for c in itertools.combinations(range(T), L)]
        idxs = [sum(2 ** i for i in c) for c in combos]
        for b in range(nb):
            e = sum(tab_lin[b][i] for i in idxs) / len(idxs)
            got = float(val.reshape(-1)[b])
            _compare(case, "EnumerateEstimator over fixed-cardinality vectors (total=%d, given=%d): value" % (T, L), got, e, scale)
            for s in range(2 ** out):
                eg = (1.0 / len(idxs)) * (tab_lin[b][s] if is_log else 1.0) if s in idxs else 0.0
                _compare(case, "EnumerateEstimator over fixed-cardinality vectors: gradient w.r.t. table entry %d" % s,
                         float(gtab[b][s]), eg, scale)
        if case.get("big"):
            classes += ["big_S"] + ([_size_class(len(idxs))] if len(idxs) >= 15 else [])
        return Info(nontrivial=_nonconstant(case["f"]) and len(idxs) > 1, classes=classes + ["out_gt_total"] if out > T else classes)
    size = case["size"]
    theta = torch.tensor(case["logits"], dtype=dt, requires_grad=True)
    dist = _make_dist(kind, theta)
    func = _table_func(tab, kind, size, out_layout=case.get("f_layout"))
    v = EnumerateEstimator(dist, func, is_log)()
    require(tuple(v.shape) == (B,), "estimate must have the proposal's batch shape", list(v.shape), [B])
    val = v.exp() if is_log else v
    gth, gtab = torch.autograd.grad(val.sum(), [theta, tab], allow_unused=True)
    gth = torch.zeros_like(theta) if gth is None else gth  # no path to the parameters = zero gradient
    gtab = torch.zeros_like(tab) if gtab is None else gtab
    Ev = [float(x) for x in val]
    Eg = [[float(x) for x in gth[b].reshape(-1)] for b in range(B)]
    Et = [[float(x) for x in gtab[b]] for b in range(B)]
    _check_against_exact(case, "EnumerateEstimator", Ev, Eg, Et, tab_lin, scale)
    _extra_classes(case, classes, B if case.get("big") == "B" else _nspace(kind, size))
    return Info(nontrivial=_nonconstant(case["f"]) and _nonuniform(case), classes=classes + [case["dtype"]])


# ------------------------------------------------------------------ D. relaxation-based estimators (quadrature)

K = 64  # probabilities are multiples of 1/K, so the threshold u = 1 - p is a cell boundary of every grid below
KR = 256  # cells per uniform variable for the two-dimensional RELAX grid (a multiple of K)


def _grid_rand(plan):
    """torch.rand / rand_like replacements: the i-th call returns plan[i](shape, dtype)."""
    import torch

    state = {"n": 0}

    def take(shape, dtype):
        require(state["n"] < len(plan), "more uniform draws than the quadrature plan provides", state["n"] + 1, len(plan), kind="harness")
        out = plan[state["n"]](tuple(shape), dtype)
        state["n"] += 1
        return out

    def rand(*size, **kw):
        if len(size) == 1 and isinstance(size[0], (tuple, list, torch.Size)):
            size = tuple(size[0])
        return take(size, kw.get("dtype") or torch.get_default_dtype())

    def rand_like(x, **kw):
        return take(x.shape, kw.get("dtype") or x.dtype)

    return rand, rand_like, state


def _midpoints(shape, dtype, which, K_):
    """(mc, B) tensor whose row m holds the midpoint (i + 1/2)/K with i = m // K ('outer'),
    m % K ('inner') or m ('single')."""
    import torch

    mc = shape[0]
    m = torch.arange(mc)
    i = {"outer": m // K_, "inner": m % K_, "single": m}[which]
    col = ((i.to(torch.float64) + 0.5) / K_).to(dtype)
    return col.view(mc, *([1] * (len(shape) - 1))).expand(shape).contiguous()


def _poly(h):
    return lambda x: h[0] + h[1] * x + h[2] * x * x


def _relaxed_strategy(tier):
    @st.composite
    def build(draw):
        k = draw(_K)
        B = draw(st.integers(1, 3))
        est = draw(st.sampled_from(["st", "relax", "relax", "rebar"]))
        is_log = draw(st.booleans())
        big = draw(st.integers(0, 5)) == 0
        if big:
            # batch across the thresholds (RELAX integrates 256 x 256 points per element: up to 17 (33) only)
            if est == "st":
                B = draw(_thresh(k, 1025 if tier == "thorough" else 257, lo=63))
            else:
                B = draw(st.sampled_from([15, 16, 17] + ([31, 32, 33] if tier == "thorough" else [])))
            js = {"rule": [draw(st.integers(1, 30)), draw(st.integers(0, 62))]}
            fs = draw(_rule())
        else:
            js = draw(st.lists(st.one_of(st.integers(1, K - 1), st.sampled_from([1, K // 2, K - 1])), min_size=B, max_size=B))
            fs = draw(_table_strategy(B, 2))
        case = {"B": B, "estimator": est, "is_log": is_log,
                "dtype": draw(st.sampled_from(["float32", "float64"])),
                "param": draw(st.sampled_from(["probs", "logits"])),
                "j": js, "f": fs,
                # control variate c(z) = eta * h(sigmoid(z / temp)), h(x) = h0 + h1 x + h2 x^2
                "h": [draw(dyadic(4, -1, 1)), draw(dyadic(4, -2, 2)), draw(dyadic(4, -1, 1))],
                "eta": draw(st.sampled_from([1.0, 0.5, -1.0, 2.0])),
                "temp": draw(st.sampled_from([1.0, 0.5]))}
        if big:
            case["big"] = "B"
        lay = draw(st.sampled_from(["contig", "contig", "strided", "expanded"]))
        if lay != "contig":
            case["param_layout"] = lay
        return case

    return build()


@subcheck("C19", "relaxed_quadrature", _relaxed_strategy, 250, 5000,
          doc="StraightThroughEstimator and RelaxEstimator (own control variate and the REBAR module) on LogisticBernoulli with p = j/64: the uniforms are replaced by the 64-point midpoint grid (256x256 for RELAX: relaxed x conditional draw) laid out along the Monte-Carlo dimension; returned mean == exact expectation within twice the midpoint-rule bound sum max|g''|/(24 K^2) (g'' bounded numerically in float64) + float noise; 1 case in 6 with a batch of 63..257 (1025) elements (straight-through) / 15..17 (33) (RELAX) from rules; parameter vector also as strided / expanded view",
          required_classes=["est_st", "est_relax", "est_rebar", "is_log", "p_extreme", "big_B",
                            "param_strided", "param_expanded"])
def _relaxed_check(case):
    import torch
    from pydrobert.torch.distributions import LogisticBernoulli
    from pydrobert.torch.estimators import RelaxEstimator, StraightThroughEstimator
    from pydrobert.torch.modules import LogisticBernoulliRebarControlVariate

    B, is_log, which = case["B"], case["is_log"], case["estimator"]
    case = dict(case)
    if _is_rule(case["j"]):
        a, d = case["j"]["rule"]
        case["j"] = [1 + (a * b + d + b // 5) % (K - 1) for b in range(B)]
    if _is_rule(case["f"]):
        case["f"] = _rule_rows(case["f"], B, 2)
    play = case.get("param_layout")
    if play == "expanded":
        case["j"] = [case["j"][0]] * B
    dt = _dt(case)
    ps = [j / K for j in case["j"]]

    def lay(t):  # the parameter vector as an every-other-element or stride-0 view
        if play == "strided":
            big = torch.full((2 * B + 1,), 0.5, dtype=t.dtype)
            big[1::2] = t
            return big[1::2]
        if play == "expanded":
            return t[:1].expand(B)
        return t

    if case["param"] == "probs":
        dist = LogisticBernoulli(probs=lay(torch.tensor(ps, dtype=dt)))
    else:
        dist = LogisticBernoulli(logits=lay(torch.tensor([math.log(p) - math.log1p(-p) for p in ps], dtype=torch.float64).to(dt)))
    tab = _tab_tensor(case["f"], dt)
    tab_lin = _lin(case, case["f"])
    func = _table_func(tab, "bern_batch", 1)
    exact = [(1 - ps[b]) * tab_lin[b][0] + ps[b] * tab_lin[b][1] for b in range(B)]
    scale = 1.0 + max(abs(x) for r in tab_lin for x in r)
    classes = ["est_" + which, "is_log" if is_log else "linear", case["dtype"], "param_" + case["param"]]
    if any(j in (1, K - 1) for j in case["j"]):
        classes.append("p_extreme")
    if case.get("big"):
        classes += ["big_B", _size_class(B)]
    if play:
        classes.append("param_" + play)
    if which == "st":
        rand, rand_like, state = _grid_rand([lambda s, d: _midpoints(s, d, "single", K)])
        with fakes.patched(torch, rand=rand, rand_like=rand_like):
            v = StraightThroughEstimator(dist, func, K, is_log)()
        require(state["n"] == 1, "straight-through estimator must draw one block of uniforms", state["n"], 1)
        val = (v.exp() if is_log else v).reshape(-1)
        for b in range(B):
            _compare(case, "StraightThroughEstimator: mean over the quadrature grid != exact expectation (p=%d/64)" % case["j"][b],
                     float(val[b]), exact[b], scale)
        return Info(nontrivial=_nonconstant(case["f"]), classes=classes)
    h, eta, temp = _poly(case["h"]), case["eta"], case["temp"]

    def c_lin(z):  # value of the control variate in linear space, pure Python
        x = eta * h(ex.sigmoid(z / temp))
        return math.exp(x) if is_log else x

    if which == "rebar":
        # the module multiplies eta * func(sigmoid(z / temp)); func here is the polynomial h
        cv = LogisticBernoulliRebarControlVariate(lambda x: _poly(case["h"])(x), start_temp=temp, start_eta=eta).to(dt)
    else:
        def cv(z):
            return eta * _poly(case["h"])(torch.sigmoid(z / temp))

    plan = [lambda s, d: _midpoints(s, d, "outer", KR), lambda s, d: _midpoints(s, d, "inner", KR)]
    rand, rand_like, state = _grid_rand(plan)
    with fakes.patched(torch, rand=rand, rand_like=rand_like):
        v = RelaxEstimator(dist, func, KR * KR, cv, is_log=is_log)()
    require(state["n"] == 2, "RELAX must draw the relaxed and the conditional uniforms once each", state["n"], 2)
    val = (v.exp() if is_log else v).reshape(-1)
    cmax = 0.0
    for b in range(B):
        p = ps[b]
        theta = math.log(p) - math.log1p(-p)
        g = lambda u: c_lin(ex.logistic_z(theta, u))  # noqa: E731
        g1 = lambda u: c_lin(ex.logistic_zcond(p, 1, u))  # noqa: E731
        g0 = lambda u: c_lin(ex.logistic_zcond(p, 0, u))  # noqa: E731
        bound = (ex.second_derivative_bound(g) + p * ex.second_derivative_bound(g1)
                 + (1 - p) * ex.second_derivative_bound(g0)) / (24.0 * KR * KR)
        cmax = max(abs(g(0.001)), abs(g(0.5)), abs(g(0.999)), 1.0)
        tol = 2.0 * bound + _tol(case, scale + cmax, f32=2e-4, f64=1e-8)
        require(abs(float(val[b]) - exact[b]) <= tol,
                "RelaxEstimator (%s): mean over the quadrature grid != exact expectation (p=%d/64, tolerance %.3g)" % (which, case["j"][b], tol),
                float(val[b]), exact[b])
    return Info(nontrivial=_nonconstant(case["f"]) and any(case["h"][1:]), classes=classes)


def _gumbel_strategy(tier):
    return st.fixed_dictionaries({
        "logits": st.lists(dyadic(4, -2, 2), min_size=2, max_size=2),
        "f": st.lists(dyadic(4, -2, 2), min_size=2, max_size=2),
        "is_log": st.booleans(),
        "dtype": st.sampled_from(["float32", "float64"]),
    })


@subcheck("C19", "gumbel_st_coarse", _gumbel_strategy, 150, 2000,
          doc="StraightThroughEstimator on GumbelOneHotCategorical with 2 categories, uniforms on the 64x64 midpoint grid: |mean - exact| <= (2K-1)/K^2 * |f0 - f1| (the decision boundary u1 = u2^r is monotone, so it crosses at most 2K-1 cells)",
          required_classes=["nonuniform"])
def _gumbel_check(case):
    import torch
    from pydrobert.torch.distributions import GumbelOneHotCategorical
    from pydrobert.torch.estimators import StraightThroughEstimator

    dt = _dt(case)
    is_log = case["is_log"]
    dist = GumbelOneHotCategorical(logits=torch.tensor(case["logits"], dtype=dt))
    tab = _tab_tensor([case["f"]], dt)
    f_lin = _lin(case, [case["f"]])[0]

    def func(b):  # (mc, 2) one-hot (straight-through: values equal the one-hot exactly in the forward pass)
        return tab[0][b.argmax(-1)]

    def grid(shape, dtype):
        mc = shape[0]
        m = torch.arange(mc)
        u = torch.stack([(m // K).to(torch.float64), (m % K).to(torch.float64)], -1)
        return ((u + 0.5) / K).to(dtype).view(shape)

    rand, rand_like, state = _grid_rand([grid])
    with fakes.patched(torch, rand=rand, rand_like=rand_like):
        v = StraightThroughEstimator(dist, func, K * K, is_log)()
    val = float((v.exp() if is_log else v).reshape(-1)[0])
    p = ex.softmax(case["logits"])
    exact = p[0] * f_lin[0] + p[1] * f_lin[1]
    tol = (2 * K - 1) / (K * K) * abs(f_lin[0] - f_lin[1]) + _tol(case, 1.0 + max(abs(x) for x in f_lin))
    require(abs(val - exact) <= tol, "StraightThroughEstimator on a 2-category Gumbel relaxation: grid mean too far from the exact expectation (tolerance %.3g)" % tol,
            val, exact)
    classes = ["is_log" if is_log else "linear"]
    if case["logits"][0] != case["logits"][1]:
        classes.append("nonuniform")
    return Info(nontrivial=case["f"][0] != case["f"][1] and case["logits"][0] != case["logits"][1], classes=classes)


# ------------------------------------------------------------------ E. independent Metropolis-Hastings


def _imh_strategy(tier):
    @st.composite
    def build(draw):
        k = draw(_K)
        kind, B, size = draw(_space())
        S = _nspace(kind, size)
        big = draw(st.integers(0, 11)) == 0
        if big:
            # number of Monte-Carlo samples across the thresholds; proposals from a rule (see _imh_proposals)
            mc = draw(_thresh(k, 2049 if tier == "thorough" else 1025))
            burn = draw(st.sampled_from([0, 0, 1, mc // 2, mc - 1, max(0, mc - 1024), min(mc - 1, 16)]))
        else:
            mc = draw(st.integers(1, 6))
            burn = draw(st.integers(0, mc - 1))
        init = draw(st.sampled_from(["drawn", "given", "given_with_leading_1"]))
        ndraws = mc + (1 if init == "drawn" else 0)
        case = {"kind": kind, "B": B, "size": size, "mc": mc, "burn_in": burn, "init": init,
                "is_log": draw(st.booleans()), "dtype": "float32",
                "logits": draw(_logits_strategy(kind, B, size)),
                "f": draw(_table_strategy(B, S)),
                "initial": draw(st.lists(st.integers(0, S - 1), min_size=B, max_size=B)),
                "uniforms": draw(st.lists(st.one_of(st.sampled_from([0, 1, TWO24 - 1, TWO24 // 2]), st.integers(0, TWO24 - 1)), min_size=1, max_size=8)),
                "same_object": draw(st.booleans())}
        if big:
            case["big"] = "mc"
            case["proposals"] = {"rule": [draw(st.integers(1, 20)), draw(st.integers(0, 20)), draw(st.integers(0, 40))]}
        else:
            case["proposals"] = draw(st.lists(st.lists(st.integers(0, S - 1), min_size=B, max_size=B), min_size=ndraws, max_size=ndraws))
        # call pattern: the estimator object is called a second time (fresh proposals, same initial sample)
        if draw(st.integers(0, 2)) == 0:
            case["second_call"] = {"rule": [draw(st.integers(1, 20)), draw(st.integers(0, 20)), draw(st.integers(0, 40))]}
        lay = draw(st.sampled_from(["contig", "contig"] + LAYOUTS[1:]))
        if lay != "contig":
            case["sample_layout"] = lay
        # call pattern: the distribution's parameters are changed in place (an optimizer step, load_state_dict)
        # between the construction of the estimator and its call; proposal and target still coincide
        if draw(st.integers(0, 2)) == 0:
            case["param_shift"] = draw(st.lists(st.integers(-8, 8).filter(lambda k: k != 0), min_size=1, max_size=3))
        return case

    return build()


def _imh_proposals(spec, ndraws, B, S):
    if isinstance(spec, list):
        return spec
    a, c, d = spec["rule"]
    return [[(a * n + c * b + d + (n * n) // 7 + (n // 5) * b) % S for b in range(B)] for n in range(ndraws)]


@subcheck("C19", "imh_accepts_all", _imh_strategy, 500, 10000,
          doc="IndependentMetropolisHastingsEstimator with proposal == target (same object or equal parameters), scripted proposals and scripted uniforms of any value in [0, 1): result == plain average (log-mean-exp in log space) of f over the post-burn-in proposals; initial sample drawn or handed over (with / without leading singleton); 1 case in 12 with 15..1025 (2049) samples (proposals from a rule); the estimator object called a second time; proposals and the initial sample as transposed / offset views",
          required_classes=["init_drawn", "init_given", "burn_in_positive", "is_log", "uniform_zero_or_max",
                            "big_mc", "second_call", "samples_transposed", "samples_offset", "given_start_and_parameters_changed"])
def _imh_check(case):
    import torch
    from pydrobert.torch.estimators import IndependentMetropolisHastingsEstimator as IMH

    kind, B, size, mc, burn, is_log = case["kind"], case["B"], case["size"], case["mc"], case["burn_in"], case["is_log"]
    dt = _dt(case)
    S = _nspace(kind, size)
    theta = torch.tensor(case["logits"], dtype=dt)
    proposal = _make_dist(kind, theta)
    density = proposal if case["same_object"] else _make_dist(kind, theta.clone())
    tab = _tab_tensor(case["f"], dt)
    func = _table_func(tab, kind, size)
    points = _points_tensor(kind, size, dt)
    lay = case.get("sample_layout")
    ndraws = mc + (1 if case["init"] == "drawn" else 0)
    queue, log = [], []
    _stub_sample(proposal, queue, log)
    kwargs = {}
    init = None
    if case["init"] != "drawn":
        init = _sample_for(points, [case["initial"]], B)
        if lay == "offset":  # the initial sample is a slice of a larger tensor
            init = _relayout(torch.cat([init, init], 0), "offset")[:1]
        elif lay == "transposed" and init.dim() > 2:
            init = init.transpose(1, 2).contiguous().transpose(1, 2)
        kwargs["initial_sample"] = init if case["init"] == "given_with_leading_1" else init[0]
        init_before = init.clone()
    est = IMH(proposal, func, mc, density, burn_in=burn, is_log=is_log, **kwargs)
    fmax = max(abs(x) for r in case["f"] for x in r)
    shifted = False
    if case.get("param_shift"):
        def _logits_of(d):
            return getattr(d, "base_dist", d).logits

        with torch.no_grad():
            for d in ([proposal] if density is proposal else [proposal, density]):
                lg = _logits_of(d)
                sh = torch.tensor([case["param_shift"][i % len(case["param_shift"])] / 4.0 for i in range(lg.numel())],
                                  dtype=lg.dtype).reshape(lg.shape)
                lg.add_(sh)
        shifted = True

    def one_call(spec, what):
        props = _imh_proposals(spec, ndraws, B, S)
        for row in props:
            q = _sample_for(points, [row], B)
            if lay == "transposed" and q.dim() > 2:
                q = q.transpose(1, 2).contiguous().transpose(1, 2)
            elif lay == "offset":
                q = _relayout(torch.cat([q, q], 0), "offset")[:1]
            queue.append(q)
        with fakes.scripted_uniform([k / TWO24 for k in case["uniforms"]]):
            v = est()
        require(not queue, "estimator did not draw the expected number of proposals" + what, len(props) - len(queue), len(props))
        used = props[1:] if case["init"] == "drawn" else props
        kept = used[burn:]
        v = v.reshape(-1)
        require(v.numel() == B, "estimate must have one value per batch element" + what, list(v.shape), [B])
        for b in range(B):
            vals = [case["f"][b][row[b]] for row in kept]
            if is_log:
                e = math.log(sum(math.exp(x) for x in vals) / len(vals))
            else:
                e = sum(vals) / len(vals)
            # float32 running sum / running logaddexp over n terms: (n - 1) * 2^-24 relative to the sum of magnitudes
            tol = 1e-5 * (1 + abs(e)) + 2.0 * len(vals) * 6e-8 * (1.0 + fmax)
            require(abs(float(v[b]) - e) <= tol,
                    "IMH with proposal == target: result is not the plain average of f over the post-burn-in proposals (batch %d)%s" % (b, what),
                    float(v[b]), e)
        return used

    used = one_call(case["proposals"], "")
    classes = ["init_drawn" if case["init"] == "drawn" else "init_given", "is_log" if is_log else "linear", "kind_" + kind]
    if case.get("second_call"):
        one_call(case["second_call"], " [second call of the same estimator object]")
        classes.append("second_call")
    if shifted:
        classes.append("parameters_changed_in_place_before_call")
        if init is not None:
            classes.append("given_start_and_parameters_changed")
    if init is not None:
        require(torch.equal(init, init_before), "the estimator modified the initial sample it was handed", init.tolist(), init_before.tolist())
    if burn:
        classes.append("burn_in_positive")
    if any(k in (0, TWO24 - 1) for k in case["uniforms"][:mc]):
        classes.append("uniform_zero_or_max")
    if case.get("big"):
        classes += ["big_mc", _size_class(mc)]
    if lay:
        classes.append("samples_" + lay)
    distinct = len({tuple(r) for r in used}) > 1
    return Info(nontrivial=distinct and _nonconstant(case["f"]), classes=classes)


# ------------------------------------------------------------------ F. relaxed distributions: identities


def _uniform_k():
    return st.one_of(st.sampled_from([0, 1, TWO24 // 2, TWO24 - 1]), st.integers(0, TWO24 - 1))


def _relaxed_dist_strategy(tier):
    @st.composite
    def build(draw):
        k = draw(_K)
        which = draw(st.sampled_from(["bernoulli", "categorical"]))
        dtype = draw(st.sampled_from(["float32", "float64"]))
        param = draw(st.sampled_from(["logits", "probs"]))
        extra = {}
        if draw(st.integers(0, 5)) == 0:
            # batch or number of categories across the thresholds; parameters from a rule (see _relaxed_params)
            thorough = tier == "thorough"
            if which == "bernoulli":
                B, V = draw(_thresh(k, 2049 if thorough else 1025)), 1
                extra["big"] = "B"
            elif draw(st.booleans()):
                B, V = draw(_thresh(k, 257 if thorough else 129)), draw(st.integers(2, 4))
                extra["big"] = "B"
            else:
                B, V = draw(st.integers(1, 3)), draw(_thresh(k, 2049 if thorough else 1025))
                extra["big"] = "V"
            params = {"rule": [draw(st.integers(0, 20)), draw(st.integers(0, 20)), draw(st.integers(0, 40))]}
            mc = draw(st.integers(1, 2))
            nmax = 24
        else:
            B = draw(st.integers(1, 3))
            if which == "bernoulli":
                if param == "logits":
                    params = draw(st.lists(st.one_of(dyadic(4, -3, 3), st.sampled_from([-8.0, 8.0, 0.0]),
                                                     st.sampled_from([-60.0, -30.0, -16.0, 16.0, 30.0, 60.0])), min_size=B, max_size=B))
                else:
                    params = draw(st.lists(st.one_of(dyadic(64, 1 / 64, 63 / 64), st.sampled_from([2.0 ** -10, 1 - 2.0 ** -10])), min_size=B, max_size=B))
                V = 1
            else:
                V = draw(st.integers(2, 4))
                if param == "logits":
                    params = draw(st.lists(st.lists(st.one_of(dyadic(4, -3, 3), dyadic(4, -3, 3), st.sampled_from([-30.0, -16.0, 16.0, 30.0])),
                                                    min_size=V, max_size=V), min_size=B, max_size=B))
                else:
                    params = draw(st.lists(st.lists(st.integers(1, 16), min_size=V, max_size=V), min_size=B, max_size=B))
            mc = draw(st.integers(1, 4))
            nmax = 4 * B * V
        lay = draw(st.sampled_from(["contig", "contig", "contig", "transposed", "offset", "expanded"]))
        if lay != "contig":
            extra["param_layout"] = lay
        lay = draw(st.sampled_from(["contig", "contig"] + LAYOUTS[1:]))
        if lay != "contig":
            extra["b_layout"] = lay
        return dict({"which": which, "B": B, "V": V, "dtype": dtype, "param": param, "params": params,
                     "mc": mc,
                     "u": draw(st.lists(_uniform_k(), min_size=1, max_size=nmax)),
                     "v": draw(st.lists(_uniform_k(), min_size=1, max_size=nmax)),
                     "validate": draw(st.booleans())}, **extra)

    return build()


def _relaxed_params(case):
    """Explicit parameter list of a case (rules expand deterministically; 'expanded' layouts repeat row 0)."""
    spec, B, V = case["params"], case["B"], case["V"]
    if _is_rule(spec):
        bern = case["which"] == "bernoulli"
        if case["param"] == "logits":
            rows = _rule_rows(spec, B, V, -3, 3)
        elif bern:
            rows = [[(1 + (spec["rule"][0] * b + spec["rule"][2]) % 63) / 64] for b in range(B)]
        else:
            a, c, d = spec["rule"]
            rows = [[1 + (a * b + c * i + d + (b * i) % 5) % 16 for i in range(V)] for b in range(B)]
        spec = [r[0] for r in rows] if bern else rows
    if case.get("param_layout") == "expanded":
        spec = [spec[0]] * B
    return spec


def _relaxed_dist(case):
    import torch
    from pydrobert.torch.distributions import GumbelOneHotCategorical, LogisticBernoulli

    dt = _dt(case)
    params = _relaxed_params(case)
    t = torch.tensor(params, dtype=dt)
    lay = case.get("param_layout")
    if lay == "expanded":  # stride 0 along the batch
        t = t[:1].expand(t.shape)
    elif lay == "offset":
        big = torch.full((t.shape[0] + 3,) + tuple(t.shape[1:]), 0.5, dtype=dt)
        big[2:2 + t.shape[0]] = t
        t = big[2:2 + t.shape[0]]
        if t.dim() == 2:
            wide = torch.full((t.shape[0], t.shape[1] + 2), 0.5, dtype=dt)
            wide[:, 1:-1] = t
            t = wide[:, 1:-1]
    elif lay == "transposed":
        if t.dim() == 2:
            t = t.t().contiguous().t()
        else:  # every other element of a larger vector
            big = torch.full((2 * t.shape[0] + 1,), 0.5, dtype=dt)
            big[1::2] = t
            t = big[1::2]
    kw = {"validate_args": case.get("validate", False)}
    if case["which"] == "bernoulli":
        d = LogisticBernoulli(**{case["param"]: t}, **kw)
        probs = [ex.sigmoid(x) for x in params] if case["param"] == "logits" else list(params)
    else:
        d = GumbelOneHotCategorical(**{case["param"]: t}, **kw)
        if case["param"] == "logits":
            probs = [ex.softmax(r) for r in params]
        else:
            probs = [[x / sum(r) for x in r] for r in params]
    return d, probs


@subcheck("C19", "relaxed_identities", _relaxed_dist_strategy, 800, 20000,
          doc="LogisticBernoulli / GumbelOneHotCategorical, all parameterisations, uniforms scripted as k/2^24 incl. 0 and 1-2^-24: threshold(csample(b)) == b for every b; log_prob(z) == tlog_prob(H(z)) + clog_prob(z, H(z)); clog_prob(z, b) == -inf iff H(z) != b; tlog_prob == exact log P(b); samples lie in the (thresholded) support; 1 case in 6 with a batch of 15..1025 (2049) / 15..1025 (2049) categories from rules (then the first, the last and one generated category are conditioned on, not all); parameters as transposed / offset / expanded views, conditioning values and relaxed samples as transposed / offset views; logits of magnitude 16 / 30 (60); expand() of the used object and of a fresh one: same threshold probabilities, same density, factorisation, samples in the support",
          required_classes=["bernoulli", "categorical", "boundary_uniform", "float32", "float64",
                            "big_B", "big_V", "param_transposed", "param_offset", "param_expanded", "expanded_copies",
                            "b_transposed", "b_offset", "extreme_logits"])
def _relaxed_dist_check(case):
    import torch

    d, probs = _relaxed_dist(case)
    dt = _dt(case)
    B, V, mc = case["B"], case["V"], case["mc"]
    bern = case["which"] == "bernoulli"
    f32 = case["dtype"] == "float32"
    blay = case.get("b_layout")
    plist = _relaxed_params(case)
    with fakes.scripted_uniform([k / TWO24 for k in case["u"]]):
        z = d.rsample([mc])
    want = (mc, B) if bern else (mc, B, V)
    require(tuple(z.shape) == want, "rsample shape", list(z.shape), list(want))
    require(bool(torch.isfinite(z).all()), "relaxed sample not finite", z.tolist() if z.numel() <= 64 else None, None)
    require(bool(d.support.check(z).all()), "relaxed sample outside the distribution's support", z.tolist() if z.numel() <= 64 else None, None)
    z = _relayout(z, blay)
    b = d.threshold(z)
    require(bool(d.thresholded_support.check(b).all()) if not bern else bool(((b == 0) | (b == 1)).all()),
            "thresholded sample outside the thresholded support", b.tolist() if b.numel() <= 64 else None, None)
    # the discrete values conditioned on: all of them, or (many categories) the first, the last and one generated
    if bern:
        ks = [0, 1]
        all_b = [torch.full((mc, B), float(x), dtype=dt) for x in ks]
    else:
        ks = list(range(V)) if V <= 8 else sorted({0, V - 1, case["u"][0] % V})
        all_b = [torch.eye(V, dtype=dt)[k].expand(mc, B, V).contiguous() for k in ks]
    all_b = [_relayout(x, blay) for x in all_b]
    # tlog_prob against exact probabilities
    for bi, bb in zip(ks, all_b):
        lp = d.tlog_prob(bb)
        require(tuple(lp.shape) == (mc, B), "tlog_prob shape", list(lp.shape), [mc, B])
        lpl = lp.tolist()
        for m in range(mc):
            for n in range(B):
                if bern and case["param"] == "logits":
                    # log sigmoid(+-x) without the cancellation of 1 - sigmoid(x)
                    x = plist[n] if bi else -plist[n]
                    e = -math.log1p(math.exp(-x)) if x >= 0 else x - math.log1p(math.exp(x))
                else:
                    p = (probs[n] if bi else 1 - probs[n]) if bern else probs[n][bi]
                    e = math.log(p)
                require(abs(lpl[m][n] - e) <= (2e-5 if f32 else 1e-9) * (1 + abs(e)), "tlog_prob != log P(b)", lpl[m][n], e)
    # conditional samples threshold back to the conditioning value
    zconds = []
    for bb in all_b:
        with fakes.scripted_uniform([k / TWO24 for k in case["v"]]):
            zc = d.csample(bb)
        require(tuple(zc.shape) == tuple(bb.shape), "csample shape", list(zc.shape), list(bb.shape))
        require(bool(torch.isfinite(zc).all()), "conditional relaxed sample not finite", zc.tolist() if zc.numel() <= 64 else None, None)
        back = d.threshold(zc)
        require(torch.equal(back, bb), "threshold(csample(b)) != b", back.tolist() if back.numel() <= 64 else None,
                bb.tolist() if bb.numel() <= 64 else None)
        zconds.append(_relayout(zc, blay))
    # factorisation of the relaxed density, on the unconditional and the conditional samples
    tol = 1e-4 if f32 else 1e-9
    for zz in [z] + zconds:
        hb = d.threshold(zz)
        lhs = d.log_prob(zz)
        rhs = d.tlog_prob(hb) + d.clog_prob(zz, hb)
        require(tuple(lhs.shape) == (mc, B) and tuple(rhs.shape) == (mc, B), "log-probability shapes", [list(lhs.shape), list(rhs.shape)], [mc, B])
        mag = 1 + lhs.abs().max().item() + zz.abs().max().item()
        if not bern:
            # log_prob sums exp(logits - z) over categories: the float error scales with those terms
            mag += float((d.logits - zz).exp().max())
        err = (lhs - rhs).abs().max().item()
        require(err <= tol * mag, "log_prob(z) != tlog_prob(H(z)) + clog_prob(z, H(z))", lhs.tolist() if lhs.numel() <= 64 else err,
                rhs.tolist() if rhs.numel() <= 64 else tol * mag)
        for bb in all_b:
            cl = d.clog_prob(zz, bb)
            same = (hb == bb) if bern else (hb == bb).all(-1)
            isinf = cl == float("-inf")
            require(bool((isinf == ~same).all()), "clog_prob(z, b) must be -inf exactly where H(z) != b",
                    cl.tolist() if cl.numel() <= 64 else None, same.tolist() if same.numel() <= 64 else None)
    # expanded copies are the same distribution with more batch dimensions: one taken from the used object (its lazily
    # derived parameterisation is cached by now), one from a fresh object
    fresh, _ = _relaxed_dist(case)
    for name, src in (("after use", d), ("fresh", fresh)):
        e = src.expand(torch.Size([2, B]))
        require(tuple(e.batch_shape) == (2, B), "expand(): batch shape", list(e.batch_shape), [2, B])
        for bi, bb in zip(ks, all_b):
            b0 = bb[0]
            lp = e.tlog_prob(b0.unsqueeze(0).expand(2, *b0.shape))
            ref = d.tlog_prob(bb)[0]
            require(tuple(lp.shape) == (2, B), "tlog_prob shape on the expanded distribution (%s)" % name, list(lp.shape), [2, B])
            err = (lp - ref.unsqueeze(0)).abs().max().item() if B else 0.0
            require(err <= (2e-5 if f32 else 1e-9) * (1 + ref.abs().max().item()),
                    "expanded distribution (%s) assigns other threshold probabilities than the original" % name,
                    lp.tolist() if lp.numel() <= 64 else err, ref.tolist() if ref.numel() <= 64 else None)
        with fakes.scripted_uniform([k / TWO24 for k in case["u"]]):
            ze = e.rsample()
        require(tuple(ze.shape) == ((2, B) if bern else (2, B, V)) and bool(e.support.check(ze).all()),
                "sample of the expanded distribution (%s): shape / support" % name, list(ze.shape), None)
        he = e.threshold(ze)
        lhs, rhs = e.log_prob(ze), e.tlog_prob(he) + e.clog_prob(ze, he)
        mag = 1 + lhs.abs().max().item() + ze.abs().max().item()
        if not bern:
            mag += float((d.logits.unsqueeze(0) - ze).exp().max())
        # the density of the expanded copy is the original's density
        orig = d.log_prob(ze)
        require((lhs - rhs).abs().max().item() <= tol * mag and (lhs - orig).abs().max().item() <= tol * mag,
                "expanded distribution (%s): log_prob(z) != tlog_prob + clog_prob, or != the original's log_prob(z)" % name,
                lhs.tolist() if lhs.numel() <= 64 else None, [rhs.tolist(), orig.tolist()] if lhs.numel() <= 64 else None)
    classes = [case["which"], case["dtype"], "param_" + case["param"], "expanded_copies"]
    if any(k in (0, 1, TWO24 - 1) for k in case["u"] + case["v"]):
        classes.append("boundary_uniform")
    if case["validate"]:
        classes.append("validate_args")
    if case.get("big"):
        classes += ["big_" + case["big"], _size_class(B if case["big"] == "B" else V)]
    if case.get("param_layout"):
        classes.append("param_" + case["param_layout"])
    if blay:
        classes.append("b_" + blay)
    flat = [x for r in _relaxed_params(case) for x in (r if isinstance(r, list) else [r])]
    if case["param"] == "logits" and any(abs(x) >= 16 for x in flat):
        classes.append("extreme_logits")
    return Info(nontrivial=True, classes=classes)


# ------------------------------------------------------------------ G. relaxed distributions: push-forward densities


def _pushforward_strategy(tier):
    @st.composite
    def build(draw):
        which = draw(st.sampled_from(["bernoulli", "categorical"]))
        V = 1 if which == "bernoulli" else draw(st.integers(2, 4))
        if which == "bernoulli":
            params = [draw(dyadic(4, -3, 3))]
        else:
            params = [draw(st.lists(dyadic(4, -3, 3), min_size=V, max_size=V))]
        return {"which": which, "B": 1, "V": V, "dtype": "float64", "param": "logits", "params": params,
                "u": draw(st.lists(st.integers(2, 62), min_size=V, max_size=V)),
                "v": draw(st.lists(st.integers(2, 62), min_size=V, max_size=V)),
                "k": draw(st.integers(0, V - 1)) if which == "categorical" else draw(st.integers(0, 1))}

    return build()


@subcheck("C19", "relaxed_pushforward", _pushforward_strategy, 400, 8000,
          doc="change of variables, float64, uniforms j/64 in the interior: the density of rsample's map u -> z (1/|det dz/du|, by autograd through the library's own sampler) equals exp(log_prob(z)); the density of csample's map v -> z~ equals exp(clog_prob(z~, b)) - i.e. the samplers draw from the densities that the factorisation speaks about (this is what makes RELAX exact in the mean for categoricals too)",
          required_classes=["bernoulli", "categorical"])
def _pushforward_check(case):
    import torch

    d, _ = _relaxed_dist(case)
    V = case["V"]
    bern = case["which"] == "bernoulli"
    shape = (1,) if bern else (1, V)
    u0 = torch.tensor([j / 64 for j in case["u"]], dtype=torch.float64).view(shape)
    v0 = torch.tensor([j / 64 for j in case["v"]], dtype=torch.float64).view(shape)

    def via(fn, x0):
        def f(x):
            def take(*a, **k):
                return x.view(shape)

            with fakes.patched(torch, rand=take, rand_like=take):
                return fn().reshape(-1)

        J = torch.autograd.functional.jacobian(f, x0.reshape(-1))
        return f(x0.reshape(-1)).detach(), J

    z, J = via(lambda: d.rsample(), u0)
    logdens = -torch.linalg.slogdet(J.view(V, V))[1]
    lp = d.log_prob(z.view(shape)).reshape(-1)[0]
    require(abs(float(logdens) - float(lp)) <= 1e-8 * (1 + abs(float(lp))),
            "density of rsample's output (change of variables) != exp(log_prob)", float(logdens), float(lp))
    if bern:
        b = torch.full(shape, float(case["k"]), dtype=torch.float64)
    else:
        b = torch.eye(V, dtype=torch.float64)[case["k"]].view(shape)
    zc, Jc = via(lambda: d.csample(b), v0)
    logdens = -torch.linalg.slogdet(Jc.view(V, V))[1]
    cl = d.clog_prob(zc.view(shape), b).reshape(-1)[0]
    require(abs(float(logdens) - float(cl)) <= 1e-8 * (1 + abs(float(cl))),
            "density of csample's output (change of variables) != exp(clog_prob)", float(logdens), float(cl))
    return Info(nontrivial=True, classes=[case["which"], "V_%d" % V])


# ------------------------------------------------------------------ H/I. fixed-cardinality sampling


def _srswor_enum(tier):
    seeds = 6 if tier == "quick" else 200
    out = []
    for total in range(0, 9):
        for given in range(0, total + 1):
            for extra in (None, 0, 1, 3):
                for s in range(seeds):
                    out.append({"total": total, "given": given, "out_extra": extra, "seed": 1000 * s + 17 * total + given,
                                "route": "dist" if (s + total) % 2 else "functional"})
    # vector sizes across the thresholds (the support is enumerated up to total 16 (17) only: it is filtered out
    # of all 2^total binary vectors)
    limit = 1025 if tier == "quick" else 2049
    for total in [x for x in THRESH if x <= limit]:
        for given in sorted({0, 1, total // 3, total // 2, total - 1, total}):
            for extra in (None, 1):
                for s in range(1 if tier == "quick" else 3):
                    out.append({"total": total, "given": given, "out_extra": extra, "seed": 77 * s + total + given,
                                "route": "dist" if (s + total + given) % 2 else "functional", "big": True})
    return out


ENUM_SUPPORT_LIMIT = {"quick": 16, "thorough": 17}


def _srswor_one(total, given, out_size, seed, route, sample_shape=()):
    import torch
    from pydrobert.torch.distributions import SimpleRandomSamplingWithoutReplacement as SRS
    from pydrobert.torch.functional import simple_random_sampling_without_replacement as srs

    torch.manual_seed(seed)
    tt, gg = torch.as_tensor(total), torch.as_tensor(given)
    zero_length = (int(tt.max()) if out_size is None else out_size) == 0
    # the distribution's own support constraint demands a positive vector size (argcheck in
    # BinaryCardinalityConstraint), so zero-length vectors are in the domain of the function only
    if route == "functional" or zero_length:
        tt, gg = torch.broadcast_tensors(tt, gg)
        if sample_shape:
            tt, gg = tt.expand(tuple(sample_shape) + tt.shape), gg.expand(tuple(sample_shape) + gg.shape)
        return srs(tt, gg, out_size), None
    d = SRS(gg if gg.dim() else given, tt if tt.dim() else total, out_size)
    return d.sample(list(sample_shape)), d


def _srswor_laws(b, totals, givens, out_size, what):
    """b: (..., out_size) flattened against lists of totals / givens."""
    rows = b.reshape(-1, b.shape[-1]).tolist() if b.shape[-1] else [[] for _ in range(max(1, b.numel()))]
    require(b.shape[-1] == out_size, what + ": vector size", b.shape[-1], out_size)
    for i, row in enumerate(rows):
        T, L = totals[i % len(totals)], givens[i % len(givens)]
        short = row if len(row) <= 40 else {"ones_at": [i for i, x in enumerate(row) if x][:60], "size": len(row)}
        require(all(x in (0.0, 1.0) for x in row), what + ": sample is not binary", short, None)
        require(sum(row) == L, what + ": number of ones != given_count (total=%d)" % T, short, L)
        require(sum(row[T:]) == 0, what + ": a one lies at or beyond position total_count=%d" % T, short, None)


@subcheck("C19", "srswor_enum", _srswor_enum, 0, 0, exhaustive=True,
          doc="every total 0..8, given <= total, out_size in {default, total, total+1, total+3}, 6 (quick) / 200 (thorough) seeds, distribution and functional form: exactly `given` ones, all before position `total`; sample satisfies support.check; exp(log_prob) summed over enumerate_support() == 1 and the support is the set of all C(total, given) vectors; plus every total in the thresholds 15..1025 (2049) with given in {0, 1, total/3, total/2, total-1, total} (support enumerated up to total 17); the distribution object is sampled a second time after its support was enumerated",
          required_classes=["given_0", "given_eq_total", "padded", "total_0", "big_total", "size_ge_1023", "big_support_enumerated"])
def _srswor_check(case):
    import torch

    T, L = case["total"], case["given"]
    out_size = None if case["out_extra"] is None else T + case["out_extra"]
    eff = T if out_size is None else out_size
    ns = 2 if case.get("big") else 3
    b, d = _srswor_one(T, L, out_size, case["seed"], case["route"], sample_shape=(ns,))
    require(tuple(b.shape) == (ns, eff), "sample shape", list(b.shape), [ns, eff])
    _srswor_laws(b, [T], [L], eff, "SRSWOR")
    classes = []
    if d is not None:
        require(bool(d.support.check(b).all()), "sample fails the distribution's own support check", b.tolist() if eff <= 32 else None, None)
        require(bool(d.has_enumerate_support), "scalar counts must be enumerable", False, True)
        if T <= 17 and (not case.get("big") or (T <= ENUM_SUPPORT_LIMIT["thorough"] and L in (1, T // 2))):
            sup = d.enumerate_support()
            n = math.comb(T, L)
            require(tuple(sup.shape) == (n, eff), "enumerate_support shape", list(sup.shape), [n, eff])
            rows = {tuple(int(x) for x in r) for r in sup.tolist()}
            expect = {tuple(1 if i in c else 0 for i in range(eff)) for c in itertools.combinations(range(T), L)}
            require(rows == expect, "enumerate_support is not the set of all vectors with the given cardinality",
                    sorted(rows)[:20], sorted(expect)[:20])
            require(bool(d.support.check(sup).all()), "enumerated vector fails the support check", None, None)
            mass = float(d.log_prob(sup).double().exp().sum())
            # log C(total, given) is accumulated in float32 from total logarithms
            require(abs(mass - 1.0) <= (1e-5 if T <= 8 else 5e-5), "probabilities over the enumerated support do not sum to one (total=%d, given=%d)" % (T, L), mass, 1.0)
            if case.get("big"):
                classes.append("big_support_enumerated")
            # call pattern: the same object is sampled again after its support and log-partition were computed
            torch.manual_seed(case["seed"] + 1)
            b2 = d.sample([2])
            _srswor_laws(b2, [T], [L], eff, "SRSWOR (second sample of the same object)")
        classes.append("dist")
    if L == 0:
        classes.append("given_0")
    if L == T:
        classes.append("given_eq_total")
    if T == 0:
        classes.append("total_0")
    if eff > T:
        classes.append("padded")
    if case.get("big"):
        classes += ["big_total", _size_class(T)]
    return Info(nontrivial=0 < L < T, classes=classes)


def _srswor_batch_strategy(tier):
    @st.composite
    def build(draw):
        k = draw(_K)
        big = draw(st.integers(0, 5)) == 0
        if big:
            # batch across the thresholds; counts from a rule (see _srswor_counts)
            B = draw(_thresh(k, 1025 if tier == "thorough" else 257))
            totals = {"rule": [draw(st.integers(1, 20)), draw(st.integers(0, 20)), draw(st.sampled_from([8, 8, 16, 40]))]}
            givens = None
            shape = draw(st.sampled_from(["vector", "vector", "matrix", "matrix_t"]))
        else:
            B = draw(st.integers(1, 4))
            totals = draw(st.lists(st.integers(0, 8), min_size=B, max_size=B))
            givens = [draw(st.integers(0, t)) for t in totals]
            shape = draw(st.sampled_from(["vector", "vector", "total_scalar", "given_scalar", "matrix"]))
            if shape == "total_scalar":
                totals = [max(totals)] * B
            if shape == "given_scalar":
                givens = [min(g for g in givens)] * B
        case = {"totals": totals, "givens": givens, "shape": shape,
                "out_extra": draw(st.sampled_from([None, 0, 1, 2])), "seed": draw(st.integers(0, 2 ** 31 - 1)),
                "route": draw(st.sampled_from(["dist", "functional"])), "ns": draw(st.integers(1, 3))}
        if big:
            case["big"], case["B"] = "B", B
        lay = draw(st.sampled_from(["contig", "contig", "strided", "offset", "expanded"]))
        if lay != "contig":
            case["count_layout"] = lay
        if case["route"] == "dist" and draw(st.integers(0, 2)) == 0:
            # call pattern: Distribution.expand() of the object, sampled after the original was sampled
            case["expand"] = draw(st.integers(1, 3))
        return case

    return build()


def _srswor_counts(case):
    totals, givens = case["totals"], case["givens"]
    if _is_rule(totals):
        a, c, tmax = totals["rule"]
        B = case["B"]
        totals = [(a * b + c + b // 3) % (tmax + 1) for b in range(B)]
        givens = [(c * b + a + b // 5) % (t + 1) for b, t in enumerate(totals)]
    if case.get("count_layout") == "expanded":  # stride 0: all counts equal
        totals, givens = [totals[0]] * len(totals), [givens[0]] * len(givens)
    return totals, givens


def _vec_layout(x, layout):
    """1-D long tensor as every-third-element / offset slice / stride-0 view of another tensor."""
    import torch

    n = x.shape[0]
    if layout == "strided":
        big = torch.zeros(3 * n + 1, dtype=x.dtype)
        big[1::3] = x
        return big[1::3]
    if layout == "offset":
        big = torch.zeros(n + 4, dtype=x.dtype)
        big[3:3 + n] = x
        return big[3:3 + n]
    if layout == "expanded":
        return x[:1].expand(n)
    return x


@subcheck("C19", "srswor_batch", _srswor_batch_strategy, 500, 10000,
          doc="batched / broadcast total and given counts (vector, scalar-vs-vector, 2-D), generated seeds: every row has exactly its given count of ones inside its first total positions; support check; mass over the enumerated support == 1 when enumerable; 1 case in 6 with a batch of 15..257 (1025) count pairs from a rule (totals up to 40); count tensors as strided / offset / expanded (stride 0) / transposed 2-D views; Distribution.expand() of the object sampled after the original",
          required_classes=["mixed_totals", "broadcast", "big_B", "counts_strided", "counts_offset", "counts_expanded",
                            "counts_matrix_transposed", "expanded_distribution"])
def _srswor_batch_check(case):
    import torch

    totals, givens = _srswor_counts(case)
    B = len(totals)
    tmax = max(totals)
    out_size = None if case["out_extra"] is None else tmax + case["out_extra"]
    eff = tmax if out_size is None else out_size
    lay = case.get("count_layout")
    tt, gg = _vec_layout(torch.tensor(totals), lay), _vec_layout(torch.tensor(givens), lay)
    classes = []
    lead = (B,)
    if case["shape"] == "total_scalar":
        tt = torch.tensor(totals[0])
        classes.append("broadcast")
    elif case["shape"] == "given_scalar":
        gg = torch.tensor(givens[0])
        classes.append("broadcast")
    elif case["shape"] == "matrix":
        tt, gg = tt.view(1, B) if tt.is_contiguous() else tt.unsqueeze(0), gg.view(1, B) if gg.is_contiguous() else gg.unsqueeze(0)
        lead = (1, B)
    elif case["shape"] == "matrix_t":
        # (B // k, k) matrices stored column-major (transposed views)
        k = 3 if B % 3 == 0 else 1
        tt = torch.tensor(totals).view(k, B // k).t()
        gg = torch.tensor(givens).view(k, B // k).t()
        totals = tt.reshape(-1).tolist()
        givens = gg.reshape(-1).tolist()
        lead = (B // k, k)
        classes.append("counts_matrix_transposed")
    b, d = _srswor_one(tt, gg, out_size, case["seed"], case["route"], sample_shape=(case["ns"],))
    lead = (case["ns"],) + lead
    require(tuple(b.shape) == lead + (eff,), "sample shape", list(b.shape), list(lead + (eff,)))
    _srswor_laws(b, totals, givens, eff, "SRSWOR (batched)")
    if d is not None:
        require(bool(d.support.check(b).all()), "sample fails the distribution's own support check", b.tolist() if b.numel() <= 64 else None, None)
        if d.has_enumerate_support and tmax <= 12:
            sup = d.enumerate_support()
            lp = d.log_prob(sup).double().exp()
            mass = lp.reshape(lp.shape[0], -1).sum(0)
            require(bool(((mass - 1).abs() <= 1e-5).all()), "probabilities over the enumerated support do not sum to one", mass.tolist()[:8], 1.0)
            classes.append("enumerable")
        if case.get("expand"):
            k = case["expand"]
            d2 = d.expand((k,) + tuple(d.batch_shape))
            b2 = d2.sample()
            require(tuple(b2.shape) == (k,) + tuple(d.batch_shape) + (eff,), "sample shape of the expanded distribution",
                    list(b2.shape), [k] + list(d.batch_shape) + [eff])
            _srswor_laws(b2, totals, givens, eff, "SRSWOR (Distribution.expand)")
            require(bool(d2.support.check(b2).all()), "sample of the expanded distribution fails its support check", None, None)
            lp1, lp2 = d.log_prob(b[0]), d2.log_prob(b2)
            require(bool((lp2 == lp1.unsqueeze(0).expand_as(lp2)).all()), "log_prob of the expanded distribution differs from the original's",
                    lp2.reshape(-1).tolist()[:8], lp1.reshape(-1).tolist()[:8])
            b3 = d.sample()  # and the original again
            _srswor_laws(b3, totals, givens, eff, "SRSWOR (original after expand)")
            classes.append("expanded_distribution")
    if len(set(totals)) > 1:
        classes.append("mixed_totals")
    if case.get("big"):
        classes += ["big_B", _size_class(B)]
    if lay:
        classes.append("counts_" + lay)
    return Info(nontrivial=any(0 < g < t for g, t in zip(givens, totals)), classes=classes)


# ------------------------------------------------------------------ J. combinatorics


def _comb_enum(tier):
    out = [{"what": "binom_row", "length": n} for n in range(0, 67)]
    out += [{"what": "vocab", "length": n, "vocab": v} for n in range(0, 5) for v in range(1, 5)]
    out += [{"what": "binary", "length": n} for n in range(0, 9 if tier == "quick" else 11)]
    out += [{"what": "card_int", "length": n, "count": c} for n in range(0, 8) for c in range(0, n + 2)]
    # sizes across the thresholds: vocabulary (length 1: all of THRESH, length 2: up to 257, length 3: up to 33),
    # 2^15 .. 2^17 binary sequences, fixed cardinality out of 15 .. 17 positions; requested dtypes
    top = 17 if tier == "thorough" else 16
    out += [{"what": "vocab", "length": 1, "vocab": v, "big": True} for v in THRESH]
    out += [{"what": "vocab", "length": 2, "vocab": v, "big": True} for v in THRESH if v <= 257]
    out += [{"what": "vocab", "length": 3, "vocab": v, "big": True} for v in THRESH if v <= 33]
    out += [{"what": "binary", "length": n, "big": True} for n in range(15, top + 1)]
    out += [{"what": "card_int", "length": n, "count": c, "big": True} for n in range(15, top + 1) for c in (0, 1, 2, n // 2, n - 1, n)]
    out += [{"what": "vocab", "length": n, "vocab": v, "dtype": dt} for n, v in ((3, 3), (2, 17), (1, 257))
            for dt in ("int32", "int16", "float32", "float64")]
    return out


@subcheck("C19", "combinatorics_enum", _comb_enum, 0, 0, exhaustive=True,
          doc="binomial_coefficient == math.comb for every length 0..66 and count 0..length+1; enumerate_vocab_sequences / enumerate_binary_sequences / ..._with_cardinality (int form) == itertools, including the documented prefix ordering; vocabulary sizes 15..2049 (length 1), ..257 (length 2), ..33 (length 3), 2^15..2^16 (2^17) binary sequences and fixed cardinality out of 15..16 (17) positions against an arithmetic oracle (digit t of row s is (s // V^t) mod V); requested dtypes int32 / int16 / float32 / float64",
          required_classes=["binom_recursion_branch", "binom_factorial_branch", "big_vocab", "big_binary", "big_card_int", "dtype_requested", "size_ge_1023"])
def _comb_check(case):
    import torch
    from pydrobert.torch import functional as F

    w = case["what"]
    n = case["length"]
    if w == "binom_row":
        counts = list(range(0, n + 2))
        got = F.binomial_coefficient(torch.tensor([n] * len(counts)), torch.tensor(counts))
        exp = [math.comb(n, c) for c in counts]
        require(got.tolist() == exp, "binomial_coefficient(%d, 0..%d) != math.comb" % (n, n + 1), got.tolist(), exp)
        got1 = F.binomial_coefficient(torch.tensor(n), torch.tensor(n // 2))
        require(int(got1) == math.comb(n, n // 2), "binomial_coefficient scalar form", int(got1), math.comb(n, n // 2))
        return Info(nontrivial=n >= 2, classes=["binom_recursion_branch" if n > 20 else "binom_factorial_branch"])
    if w in ("vocab", "binary"):
        V = case.get("vocab", 2)
        kw = {}
        if case.get("dtype"):
            kw["dtype"] = getattr(torch, case["dtype"])
        got = F.enumerate_vocab_sequences(n, V, **kw) if w == "vocab" else F.enumerate_binary_sequences(n, **kw)
        require(tuple(got.shape) == (V ** n, n), "enumeration shape", list(got.shape), [V ** n, n])
        require(got.dtype == kw.get("dtype", torch.long), "enumeration dtype", str(got.dtype), str(kw.get("dtype", torch.long)))
        if case.get("big") or case.get("dtype"):
            # documented order: position 0 varies fastest, i.e. digit t of row s is (s // V^t) mod V
            srow = torch.arange(V ** n, dtype=torch.long).unsqueeze(1)
            exp_t = torch.stack([(srow[:, 0] // (V ** t)) % V for t in range(n)], 1) if n else srow[:, :0]
            ok = torch.equal(got.to(torch.long), exp_t)
            bad = [] if ok else (got.to(torch.long) != exp_t).nonzero()[:5].tolist()
            require(ok, "enumeration differs from the documented order (digit t of row s = (s // V^t) mod V) at %s" % bad,
                    [got[i, j].item() for i, j in bad], [exp_t[i, j].item() for i, j in bad])
            cls = ["big_" + w, _size_class(V if w == "vocab" else 2 ** n)] if case.get("big") else ["dtype_requested"]
            return Info(nontrivial=True, classes=cls)
        rows = [tuple(r) for r in got.tolist()]
        # documented order: position 0 varies fastest (all sequences of length n-x are support[:V**(n-x), :n-x])
        exp = [tuple(reversed(t)) for t in itertools.product(range(V), repeat=n)]
        require(rows == exp, "enumeration differs from itertools.product in the documented order", rows[:10], exp[:10])
        return Info(nontrivial=n >= 2 and V >= 2, classes=[w])
    c = case["count"]
    got = F.enumerate_binary_sequences_with_cardinality(n, c)
    exp = {tuple(1 if i in cc else 0 for i in range(n)) for cc in itertools.combinations(range(n), c)}
    rows = [tuple(r) for r in got.tolist()]
    require(len(rows) == len(set(rows)) == len(exp) and set(rows) == exp,
            "enumerate_binary_sequences_with_cardinality(%d, %d) is not the set of combinations" % (n, c), rows[:20], sorted(exp)[:20])
    return Info(nontrivial=0 < c < n, classes=["card_int"] + (["big_card_int"] if case.get("big") else []))


def _comb_strategy(tier):
    @st.composite
    def build(draw):
        k = draw(_K)
        big = draw(st.integers(0, 4)) == 0
        if big:
            # number of (length, count) pairs across the thresholds, from a rule (see _comb_pairs)
            case = {"B": draw(_thresh(k, 2049 if tier == "thorough" else 1025)), "big": "B",
                    "rule": [draw(st.integers(1, 30)), draw(st.integers(0, 30)), draw(st.sampled_from([20, 66, 66]))],
                    "broadcast": draw(st.sampled_from(["none", "none", "length_scalar", "count_scalar"]))}
        else:
            B = draw(st.integers(1, 5))
            bigl = draw(st.booleans())
            lengths = draw(st.lists(st.integers(0, 66 if bigl else 20), min_size=B, max_size=B))
            counts = [draw(st.one_of(st.integers(0, x), st.integers(0, x + 2))) for x in lengths]
            small = draw(st.lists(st.integers(0, 6), min_size=B, max_size=B))
            scount = [draw(st.integers(0, x)) for x in small]
            case = {"lengths": lengths, "counts": counts, "small": small, "scount": scount,
                    "broadcast": draw(st.sampled_from(["none", "length_scalar", "count_scalar"]))}
        lay = draw(st.sampled_from(["contig", "contig", "strided", "offset", "expanded", "matrix_t"]))
        if lay != "contig":
            case["layout"] = lay
        return case

    return build()


def _comb_pairs(case):
    if "rule" not in case:
        return list(case["lengths"]), list(case["counts"]), list(case["small"]), list(case["scount"])
    a, c, lmax = case["rule"]
    B = case["B"]
    ln = [(a * b + c + b // 7) % (lmax + 1) for b in range(B)]
    ct = [(c * b + a + (b * b) // 11) % (x + 3) for b, x in enumerate(ln)]
    nb = min(B, 129)  # the tensor-form enumeration materialises B * 2^(max length + 1) rows
    sm = [(a * b + c) % 7 for b in range(nb)]
    sc = [(c * b + a + b // 3) % (x + 1) for b, x in enumerate(sm)]
    return ln, ct, sm, sc


@subcheck("C19", "combinatorics_mixed", _comb_strategy, 400, 8000,
          doc="binomial_coefficient on generated vectors of mixed lengths <= 66 (both internal branches, count possibly > length, scalar broadcasting) == math.comb; tensor form of enumerate_binary_sequences_with_cardinality: binom == math.comb and support[b, :binom[b], :length[b]] is the set of combinations; 1 case in 5 with 15..1025 (2049) pairs from a rule (129 for the tensor-form enumeration); length / count tensors as strided / offset / expanded / transposed 2-D views",
          required_classes=["max_length_gt_20", "max_length_le_20", "count_gt_length", "big_B",
                            "layout_strided", "layout_offset", "layout_expanded", "layout_matrix_t"])
def _comb_mixed_check(case):
    import torch
    from pydrobert.torch import functional as F

    ln, ct, sm, sc = _comb_pairs(case)
    lay = case.get("layout")
    if lay == "expanded":
        ln, ct, sm, sc = [ln[0]] * len(ln), [ct[0]] * len(ct), [sm[0]] * len(sm), [sc[0]] * len(sc)

    def ten(xs):
        t = torch.tensor(xs)
        if lay == "matrix_t":
            k = 3 if len(xs) % 3 == 0 else 1
            return t.view(k, len(xs) // k).t()  # (n / k, k), column-major
        return _vec_layout(t, lay)

    def flat(xs):  # the logical (row-major) order of ten(xs)
        return ten(xs).reshape(-1).tolist()

    if case["broadcast"] == "length_scalar":
        ln = [ln[0]] * len(ln)
        L, C = torch.tensor(ln[0]), ten(ct)
    elif case["broadcast"] == "count_scalar":
        ct = [ct[0]] * len(ct)
        L, C = ten(ln), torch.tensor(ct[0])
    else:
        L, C = ten(ln), ten(ct)
    got = F.binomial_coefficient(L, C)
    exp = [math.comb(a, b) for a, b in zip(flat(ln), flat(ct))]
    want_shape = tuple(torch.broadcast_shapes(L.shape, C.shape))
    require(tuple(got.shape) == want_shape, "binomial_coefficient: shape is not the broadcast shape", list(got.shape), list(want_shape))
    if got.reshape(-1).tolist() != exp:
        bad = [i for i, (x, y) in enumerate(zip(got.reshape(-1).tolist(), exp)) if x != y][:5]
        require(False, "binomial_coefficient != math.comb at flat positions %s (length, count = %s)" % (bad, [(flat(ln)[i], flat(ct)[i]) for i in bad]),
                [got.reshape(-1)[i].item() for i in bad], [exp[i] for i in bad])
    SL, SC = ten(sm), ten(sc)
    sup, binom = F.enumerate_binary_sequences_with_cardinality(SL, SC)
    fsm, fsc = flat(sm), flat(sc)
    expb = [math.comb(a, b) for a, b in zip(fsm, fsc)]
    require(binom.reshape(-1).tolist() == expb, "tensor form: binom != math.comb", binom.reshape(-1).tolist()[:20], expb[:20])
    require(tuple(sup.shape) == tuple(SL.shape) + (max(expb), max(fsm)), "tensor form: support shape", list(sup.shape),
            list(SL.shape) + [max(expb), max(fsm)])
    sup2 = sup.reshape(len(fsm), max(expb), max(fsm))
    for i, (a, b) in enumerate(zip(fsm, fsc)):
        rows = [tuple(int(x) for x in r[:a]) for r in sup2[i, :expb[i]].tolist()]
        expect = {tuple(1 if j in cc else 0 for j in range(a)) for cc in itertools.combinations(range(a), b)}
        require(len(rows) == len(set(rows)) and set(rows) == expect,
                "tensor form: support[%d, :binom, :length] is not the set of combinations (length=%d, count=%d)" % (i, a, b), rows, sorted(expect))
    classes = ["max_length_gt_20" if max(ln) > 20 else "max_length_le_20"]
    if any(b > a for a, b in zip(ln, ct)):
        classes.append("count_gt_length")
    if case.get("big"):
        classes += ["big_B", _size_class(len(ln))]
    if lay:
        classes.append("layout_" + lay)
    return Info(nontrivial=max(ln) >= 2, classes=classes)


# ------------------------------------------------------------------ K. every threshold, every run
#
# The generated sub-checks above pick their sizes through Hypothesis, which re-uses few distinct values per run
# (one run in three missed a whole size band).  This sub-check enumerates, deterministically, one case per
# threshold and dimension for each of them and hands it to the same check functions; the class labels are
# prefixed with the name of the sub-check they exercise.


def _r3(i):
    return {"rule": [1 + i % 19, (3 * i + 1) % 20, (7 * i + 2) % 40]}


def _cyc(xs, i):
    return xs[i % len(xs)]


def _grid_extras(case, i, S):
    mc = case["mc"]
    case["rot"] = [1 + (i + m) % max(S - 1, 1) for m in range(mc)]
    lay = _cyc(LAYOUTS, i)
    if lay != "contig":
        case["sample_layout"] = lay
    lay = _cyc(LAYOUTS, i // 3 + 1)
    if lay != "contig":
        case["f_layout"] = lay
    if i % 2:
        case["reuse"] = True
    return case


def _size_grid(tier):
    thorough = tier == "thorough"
    out = []

    def upto(limit, lo=0):
        return [x for x in THRESH if lo <= x <= limit]

    # direct / importance: batch, categories
    for sub in ("direct_exact", "importance_exact"):
        for i, B in enumerate(upto(1025 if thorough else 257)):
            kind = _cyc(KINDS, i)
            size = 1 if kind == "bern_batch" else 1 + i % 2 if kind == "bern_joint" else 2 + i % 2
            case = {"kind": kind, "B": B, "size": size, "is_log": i % 2 == 0, "mc": 1 + (i // 2) % 2, "big": "B",
                    "dtype": _cyc(["float32", "float64", "float32"], i), "logits": _r3(i), "f": _r3(i + 5)}
            if sub == "direct_exact":
                case["cv"] = _cyc([None, dict(_r3(i + 9), const=False), dict(_r3(i + 9), const=True)], i)
            else:
                case.update({"q_logits": _r3(i + 3), "log_scale": _cyc([0.0, -1.0, 0.5], i), "same_object": i % 4 == 3})
                if case["same_object"]:
                    case["q_logits"] = case["logits"]
            out.append({"sub": sub, "case": _grid_extras(case, i, _nspace(kind, size))})
        sizes = [("cat", v) for v in upto(257 if thorough else 65)] + [("bern_joint", n) for n in ((4, 5, 6) if thorough else (4, 5))]
        for i, (fam, size) in enumerate(sizes):
            kind = "bern_joint" if fam == "bern_joint" else _cyc(["cat_index", "cat_onehot"], i)
            case = {"kind": kind, "B": 1 + i % 2, "size": size, "is_log": i % 2 == 1, "mc": 1, "big": "S",
                    "dtype": _cyc(["float32", "float64"], i), "logits": _r3(i + 1), "f": _r3(i + 7)}
            if sub == "direct_exact":
                case["cv"] = _cyc([dict(_r3(i + 2), const=False), None], i)
            else:
                case.update({"q_logits": _r3(i + 4), "log_scale": _cyc([0.0, 0.5], i), "same_object": False})
            out.append({"sub": sub, "case": _grid_extras(case, i, _nspace(kind, size))})
    # enumeration: categories, batch
    for i, size in enumerate(upto(2049 if thorough else 1025)):
        case = {"kind": _cyc(["cat_index", "cat_onehot"], i), "B": 1 + i % 2, "size": size, "is_log": i % 2 == 0, "mc": 1, "big": "S",
                "dtype": _cyc(["float32", "float64"], i // 2), "logits": _r3(i), "f": _r3(i + 3)}
        if i % 3:
            case["f_layout"] = _cyc(LAYOUTS[1:], i)
        out.append({"sub": "enumerate_exact", "case": case})
    for i, B in enumerate(upto(1025 if thorough else 257)):
        kind = _cyc(["bern_batch", "cat_index", "cat_onehot"], i)
        out.append({"sub": "enumerate_exact", "case": {"kind": kind, "B": B, "size": 1 if kind == "bern_batch" else 2 + i % 3, "is_log": i % 2 == 1,
                                                       "mc": 1, "big": "B", "dtype": "float32", "logits": _r3(i + 2), "f": _r3(i + 6)}})
    # Metropolis-Hastings: number of samples
    for i, mc in enumerate(upto(2049 if thorough else 1025)):
        kind = _cyc(KINDS, i)
        B = 1 + i % 2
        size = 1 if kind == "bern_batch" else 1 + i % 3 if kind == "bern_joint" else 2 + i % 3
        S = _nspace(kind, size)
        lg = _rule_rows(_r3(i), B, 1 if kind == "bern_batch" else size)
        case = {"kind": kind, "B": B, "size": size, "mc": mc, "burn_in": _cyc([0, 1, mc // 2, mc - 1, max(0, mc - 1024), 16 % mc], i),
                "init": _cyc(["drawn", "given", "given_with_leading_1"], i), "is_log": i % 2 == 0, "dtype": "float32",
                "logits": [r[0] for r in lg] if kind == "bern_batch" else lg, "f": _rule_rows(_r3(i + 4), B, S),
                "initial": [(i + b) % S for b in range(B)], "uniforms": [0, TWO24 - 1, 1, (i * 104729) % TWO24, TWO24 // 2],
                "same_object": i % 2 == 1, "big": "mc", "proposals": _r3(i + 1)}
        if i % 3 == 0:
            case["second_call"] = _r3(i + 8)
        if i % 4:
            case["sample_layout"] = _cyc(LAYOUTS[1:], i)
        out.append({"sub": "imh_accepts_all", "case": case})
    # relaxed distributions: batch, categories
    grid = [("bernoulli", B, 1, "B") for B in upto(2049 if thorough else 1025)]
    grid += [("categorical", B, 2 + j % 3, "B") for j, B in enumerate(upto(257 if thorough else 129))]
    grid += [("categorical", 1 + j % 3, V, "V") for j, V in enumerate(upto(2049 if thorough else 1025))]
    for i, (which, B, V, big) in enumerate(grid):
        case = {"which": which, "B": B, "V": V, "dtype": _cyc(["float32", "float64"], i), "param": _cyc(["logits", "probs", "logits"], i),
                "params": _r3(i), "mc": 1 + i % 2, "big": big, "validate": i % 2 == 0,
                "u": [0, (i * 7919) % TWO24, TWO24 - 1, 1, TWO24 // 2, (i * 104729 + 11) % TWO24, 12345, 999983][: 3 + i % 6],
                "v": [TWO24 - 1, 0, (i * 15485863) % TWO24, 1, TWO24 // 2, 4242421][: 2 + i % 5]}
        lay = _cyc(["contig", "transposed", "offset", "expanded"], i)
        if lay != "contig":
            case["param_layout"] = lay
        lay = _cyc(LAYOUTS, i // 2)
        if lay != "contig":
            case["b_layout"] = lay
        out.append({"sub": "relaxed_identities", "case": case})
    # relaxation-based estimators: batch
    for i, B in enumerate(upto(1025 if thorough else 257, lo=63)):
        out.append({"sub": "relaxed_quadrature", "case": {
            "B": B, "estimator": "st", "is_log": i % 2 == 0, "dtype": _cyc(["float32", "float64"], i), "param": _cyc(["probs", "logits"], i // 2),
            "j": {"rule": [1 + i, (5 * i) % 63]}, "f": _r3(i), "h": [0.0, 0.0, 0.0], "eta": 1.0, "temp": 1.0, "big": "B",
            **({"param_layout": _cyc(["strided", "expanded"], i)} if i % 3 else {})}})
    for i, B in enumerate([15, 16, 17] + ([31, 32, 33] if thorough else [])):
        out.append({"sub": "relaxed_quadrature", "case": {
            "B": B, "estimator": _cyc(["relax", "rebar"], i), "is_log": i % 2 == 1, "dtype": _cyc(["float64", "float32"], i), "param": "probs",
            "j": {"rule": [3 + i, (11 * i) % 63]}, "f": _r3(i + 2), "h": [0.25, -0.5, 0.5], "eta": _cyc([1.0, 0.5], i), "temp": _cyc([1.0, 0.5], i), "big": "B"}})
    # fixed-cardinality sampling: batch
    for i, B in enumerate(upto(1025 if thorough else 257)):
        case = {"totals": {"rule": [1 + i % 19, (3 * i) % 20, _cyc([8, 16, 40], i)]}, "givens": None, "B": B, "big": "B",
                "shape": _cyc(["vector", "matrix", "matrix_t"], i), "out_extra": _cyc([None, 0, 1, 2], i), "seed": 1000 + 17 * i,
                "route": _cyc(["dist", "functional"], i), "ns": 1 + i % 2}
        if i % 3:
            case["count_layout"] = _cyc(["strided", "offset"], i)
        if case["route"] == "dist" and i % 4 == 0:
            case["expand"] = 1 + i % 3
        out.append({"sub": "srswor_batch", "case": case})
    # binomial coefficients: number of pairs
    for i, B in enumerate(upto(2049 if thorough else 1025)):
        case = {"B": B, "big": "B", "rule": [1 + i % 29, (5 * i) % 30, _cyc([20, 66, 66], i)], "broadcast": _cyc(["none", "none", "length_scalar", "count_scalar"], i)}
        if i % 2:
            case["layout"] = _cyc(["strided", "offset", "matrix_t"], i)
        out.append({"sub": "combinatorics_mixed", "case": case})
    return out


_GRID_CHECKS = {"direct_exact": _direct_check, "importance_exact": _is_check, "enumerate_exact": _enum_check,
                "imh_accepts_all": _imh_check, "relaxed_identities": _relaxed_dist_check, "relaxed_quadrature": _relaxed_check,
                "srswor_batch": _srswor_batch_check, "combinatorics_mixed": _comb_mixed_check}


@subcheck("C19", "size_grid", _size_grid, 0, 0, exhaustive=True,
          doc="deterministic grid: one rule-expanded case per threshold 15..2049 (up to each sub-check's tier limit) and per unbounded dimension (batch, categories, Metropolis-Hastings samples, count pairs), handed to the check functions of direct_exact, importance_exact, enumerate_exact, imh_accepts_all, relaxed_identities, relaxed_quadrature, srswor_batch and combinatorics_mixed; layouts / rotation / reuse cycle with the index; class labels are prefixed with the sub-check's name",
          required_classes=[s_ + ":" + c for s_ in ("direct_exact", "importance_exact", "enumerate_exact", "relaxed_identities", "srswor_batch")
                            for c in ("size_15_65", "size_ge_127")]
          + ["enumerate_exact:size_ge_1023", "imh_accepts_all:size_ge_1023", "relaxed_identities:size_ge_1023", "combinatorics_mixed:size_ge_1023",
             "relaxed_quadrature:size_ge_127", "direct_exact:big_S", "importance_exact:big_S"])
def _grid_check(case):
    info = _GRID_CHECKS[case["sub"]](case["case"])
    return Info(nontrivial=info.nontrivial, classes=[case["sub"] + ":" + c for c in info.classes])


# ------------------------------------------------------------------ relaxed categorical with masked (-inf logit) categories


@st.composite
def _masked_cat_case(draw, tier):
    V = draw(st.integers(2, 5))
    B = draw(st.integers(1, 3))
    rows = []
    for _ in range(B):
        r = [draw(st.integers(-8, 8)) / 4.0 for _ in range(V)]
        k = draw(st.integers(1, V - 1))
        for i in draw(st.permutations(list(range(V))))[:k]:
            r[i] = "-inf"
        rows.append(r)
    return {"V": V, "B": B, "logits": rows, "dtype": draw(st.sampled_from(["float32", "float64"])),
            "temp": draw(st.sampled_from([1.0, 0.5, 2.0]))}


@subcheck("C19", "gumbel_masked_categories", lambda tier: _masked_cat_case(tier), 300, 5000,
          doc="GumbelOneHotCategorical built from logits with -inf (masked) categories: thresholded log-probability of every one-hot "
              "value == log-softmax of the logits (-inf exactly for the masked ones), probabilities over the one-hot support sum to one, "
              "no NaN; samples never select a masked category",
          required_classes=["two_or_more_live_categories"])
def _masked_cat_check(case):
    import torch
    from pydrobert.torch.distributions import GumbelOneHotCategorical

    dt = getattr(torch, case["dtype"])
    V, B = case["V"], case["B"]
    rows = [[float("-inf") if x == "-inf" else float(x) for x in r] for r in case["logits"]]
    logits = torch.tensor(rows, dtype=dt)
    dist = GumbelOneHotCategorical(logits=logits)
    eye = torch.eye(V, dtype=dt)
    tot = [0.0] * B
    for v in range(V):
        b = eye[v].expand(B, V)
        got = dist.tlog_prob(b)
        require(list(got.shape) == [B], "tlog_prob shape", list(got.shape), [B])
        for n in range(B):
            live = [x for x in rows[n] if x != float("-inf")]
            m = max(live)
            lse = m + math.log(sum(math.exp(x - m) for x in live))
            exp = rows[n][v] - lse if rows[n][v] != float("-inf") else float("-inf")
            g = float(got[n])
            require(not math.isnan(g), "tlog_prob is NaN for a distribution with a masked category", g, exp)
            require((g == exp) if exp == float("-inf") else abs(g - exp) <= 1e-5 * (1 + abs(exp)),
                    "tlog_prob(one-hot %d) of batch element %d != log-softmax of the logits" % (v, n), g, exp)
            tot[n] += math.exp(g)
    for n in range(B):
        require(abs(tot[n] - 1.0) <= 1e-5, "thresholded probabilities over the one-hot support do not sum to one", tot[n], 1.0)
    torch.manual_seed(7)
    z = dist.rsample([16])
    hard = dist.threshold(z)
    for n in range(B):
        dead = [i for i, x in enumerate(rows[n]) if x == float("-inf")]
        require(float(hard[:, n, dead].sum()) == 0.0, "a sample selects a masked (zero-probability) category", hard[:, n].tolist(), dead)
    cl = ["two_or_more_live_categories"] if any(sum(1 for x in r if x != float("-inf")) >= 2 for r in rows) else []
    return Info(nontrivial=bool(cl), classes=cl + [case["dtype"]])
