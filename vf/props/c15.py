"""C15 Training control decisions follow the stated rules and survive restarts."""
from __future__ import annotations

import itertools

from hypothesis import strategies as st

from ..core import Info, Reject, require, subcheck
from ..gen import dyadic, weighted
from .. import trainctl as T

INFO_KEYS = ("epoch", "es_resume_cd", "es_patience_cd", "rlr_resume_cd", "rlr_patience_cd", "lr")


# ---------------------------------------------------------------- strategies


def _metric_seq(n):
    free = st.lists(dyadic(4, 0, 8), min_size=n, max_size=n)
    # a walk with small steps: plateaus and sub-threshold improvements are frequent
    step = st.sampled_from([-1.0, -0.5, -0.25, 0.0, 0.0, 0.25, 0.5])

    def walk(args):
        start, steps = args
        out, v = [], start
        for s in steps:
            out.append(v)
            v = min(8.0, max(0.0, v + s))
        return out

    walked = st.tuples(dyadic(4, 2, 8), st.lists(step, min_size=n, max_size=n)).map(walk)
    return st.one_of(free, walked, walked)


SCALES = ("unit", "unit", "unit", "negative", "big", "decimal", "int")
TRAIN_GARBAGE = ("inf", "-inf", "nan", 1e300, -1e300, 0.0)


def _rescale(cfg, kind, j):
    """Move a case drawn on the unit grid k/4 to another value class; thresholds move with the metrics.

    * ``negative``: metrics shifted by -4 (lower is better does not mean positive);
    * ``big``: everything times 10**j (exact: the values stay dyadic with <= 3 significant digits);
    * ``decimal``: 5-significant-digit decimals (12345 + k) * 10**-j, not dyadic; thresholds (t + 1/2) * 10**-j, so that
      no difference of two metrics ever *equals* a threshold and the decision does not hinge on how the implementation
      rounds the subtraction;
    * ``int``: metrics passed as Python ints.
    """
    val, train = cfg["val"], cfg["train"]
    if kind == "negative":
        cfg["val"] = [v - 4.0 for v in val]
        cfg["train"] = [v - 4.0 for v in train]
    elif kind == "big":
        f = float(10 ** j)
        cfg["val"] = [v * f for v in val]
        cfg["train"] = [v * f for v in train]
        cfg["es_thr"] *= f
        cfg["rlr_thr"] *= f
    elif kind == "decimal":
        cfg["val"] = [float("%de-%d" % (12345 + int(v * 4), j)) for v in val]
        cfg["train"] = [float("%de-%d" % (20000 + int(v * 4), j)) for v in train]
        for k in ("es_thr", "rlr_thr"):
            t = int(cfg[k] * 4)
            cfg[k] = float("%d.5e-%d" % (t, j)) if t else 0.0
    elif kind == "int":
        cfg["val"] = [int(round(v)) for v in val]
        cfg["train"] = [int(round(v)) for v in train]
    cfg["scale"] = kind


@st.composite
def config(draw, max_len, fmts=("default",), keep=None, min_len=1, scales=SCALES):
    n = draw(st.integers(min_len, max_len))
    thr = weighted((1, st.just(0.0)), (4, dyadic(4, 0.25, 2)))
    factor = draw(st.sampled_from([0.5, 0.25]))
    eps = draw(st.sampled_from([-8, -8, -1, 0]))
    rlr_pat = draw(st.integers(1, 3))
    bits = 1 if factor == 0.5 else 2
    max_red = n // rlr_pat
    lr_mode = draw(st.sampled_from(["opt", "opt", "opt", "param"]))
    if lr_mode == "param" and eps == -8 and bits * max_red > 7:
        lr_mode = "opt"
    if lr_mode == "param":
        lr_exp = draw(st.integers(-3, 4))
    elif eps == -8:
        # every rate reachable by the generated number of reductions stays on the 5-digit grid
        lr_exp = draw(st.integers(min(16, -7 + bits * max_red), 16))
    else:
        # with a coarse epsilon small rates exercise the "change is negligible" branch
        lr_exp = draw(st.one_of(st.integers(-4, 4), st.integers(-7, 16)))
    cfg = {
        "num_epochs": draw(st.one_of(st.none(), st.integers(1, 8))),
        "es_thr": draw(thr),
        "es_pat": draw(st.integers(1, 3)),
        "es_burn": draw(st.integers(0, 2)),
        "rlr_thr": draw(thr),
        "rlr_pat": rlr_pat,
        "rlr_burn": draw(st.integers(0, 2)),
        "rlr_cool": draw(st.integers(0, 2)),
        "factor": factor,
        "eps": eps,
        "lr_mode": lr_mode,
        "lr_exp": lr_exp,
        "groups": draw(st.sampled_from([1, 2])),
        "keep": draw(st.booleans()) if keep is None else keep,
        "fmt": list(fmts)[0],
    }
    if draw(st.integers(0, 9)) == 0:
        # boundary class: reductions fire almost every epoch and the rate passes through 2 -> 1, where the
        # change equals epsilon = 10**0 exactly (must count as negligible)
        cfg.update({"eps": 0, "factor": 0.5, "lr_mode": "opt", "lr_exp": draw(st.integers(1, 3)), "rlr_thr": 2.0,
                    "rlr_pat": 1, "rlr_burn": 0, "rlr_cool": draw(st.integers(0, 1)), "es_thr": draw(st.sampled_from([0.0, 0.25]))})
    elif draw(st.integers(0, 11)) == 0:
        # the default factor 0.1 with a rate 10**k from log10_learning_rate: 10**4 ... 0.1 are reached exactly, the next
        # reduction would leave the printed grid (rejected) unless the coarse epsilon calls it negligible
        cfg.update({"factor": 0.1, "lr_mode": "param", "lr_exp": draw(st.integers(0, 4)), "eps": draw(st.sampled_from([-8, -1, -1, 0]))})
    cfg["val"] = draw(_metric_seq(n))
    cfg["train"] = draw(st.lists(dyadic(4, 0, 8), min_size=n, max_size=n))
    # ---- classes added when the generators were widened (memory layout / dtype of the saved state, magnitude and
    # type of the metrics, garbage in the training metric, which no decision depends on)
    # Model kind and file-name format are functions of everything drawn so far plus one integer: Hypothesis re-uses
    # prefixes of earlier examples, and with budgets of a few dozen cases (C16) a directly drawn choice can miss a value
    mix = draw(st.integers(0, 10 ** 6)) + n * 7 + cfg["es_pat"] * 13 + rlr_pat * 17 + cfg["rlr_cool"] * 19 + int(4 * sum(cfg["val"])) \
        + int(4 * sum(cfg["train"]))
    cfg["model"] = ("plain", "strided", "f64buf", "plain")[mix % 4]
    cfg["fmt"] = list(fmts)[(mix // 4) % len(fmts)]
    kind = draw(st.sampled_from(list(scales)))
    j = draw(st.sampled_from([3, 6, 12])) if kind == "big" else draw(st.sampled_from([4, 9, 30])) if kind == "decimal" else 0
    _rescale(cfg, kind, j)
    if draw(st.integers(0, 5)) == 0:
        pos = draw(st.lists(st.integers(0, n - 1), min_size=1, max_size=3))
        for i in pos:
            cfg["train"][i] = draw(st.sampled_from(list(TRAIN_GARBAGE)))
    return cfg


def _restarts(n):
    """Restart points: after which epochs (1-based) the controller is discarded, and how."""
    return st.lists(st.tuples(st.integers(0, n), st.sampled_from(["ctl", "full"])), max_size=4)


EXTRAS = ("update_cache", "query_past", "explicit_epoch")


def _extras(n):
    """Call patterns on the running controller that must not change anything: a manual ``update_cache()`` after an
    epoch, ``continue_training(j)`` / ``controller[j]`` asked about every earlier epoch, the epoch number passed
    explicitly to ``update_for_epoch``."""
    return st.lists(st.tuples(st.integers(1, n), st.sampled_from(list(EXTRAS))), max_size=3)


def _check_domain(cfg):
    """The property is stated for rates that the history file prints exactly."""
    infos, conts, ref = T.ref_trajectory(cfg, cfg["val"])
    if not T.representable5(T.lr0_of(cfg)) or not all(T.representable5(i["lr"]) for i in infos):
        raise Reject("learning rate leaves the 5-significant-digit grid")
    if not all(T.representable5(v) for v in cfg["val"]):
        raise Reject("validation metric off the 5-significant-digit grid")
    return infos, conts, ref


# ---------------------------------------------------------------- per-epoch comparison


def _info_of(ctl, epoch, where=""):
    """get_info(epoch) of a recorded epoch (the method returns None instead of raising when the entry is missing)."""
    info = ctl.get_info(epoch, None)
    require(info is not None, "history entry of epoch %d missing%s" % (epoch, where), None, "an entry")
    return info


def _compare_epoch(s, ref, cont_real, cont_ref, lrs_before, train, val, best, where=""):
    """``best``: the oracle's best epoch so far (lowest validation metric, earliest on ties)."""
    ctl = s.ctl
    e = ref.epoch
    require(cont_real is cont_ref or cont_real == cont_ref,
            "update_for_epoch decision (continue?) at epoch %d%s" % (e, where), cont_real, cont_ref)
    require(ctl.get_last_epoch() == e, "get_last_epoch after update%s" % where, ctl.get_last_epoch(), e)
    cc = ctl.continue_training()
    require(cc == cont_ref, "continue_training() after epoch %d%s" % (e, where), cc, cont_ref)
    info = _info_of(ctl, e, where)
    exp = ref.info()
    got = {k: info[k] for k in INFO_KEYS}
    require(got == exp, "countdowns / learning rate recorded for epoch %d%s" % (e, where), got, exp)
    require(T.same_num(info["train_met"], train) and T.same_num(info["val_met"], val), "metrics recorded for epoch %d" % e,
            [info["train_met"], info["val_met"]], [train, val])
    lrs = [g["lr"] for g in s.opt.param_groups]
    if ref.reduced:
        require(all(x == ref.lr for x in lrs), "reduced rate not written into every optimizer group (epoch %d)%s" % (e, where),
                lrs, ref.lr)
    else:
        require(lrs == lrs_before, "optimizer rate changed although no reduction was due (epoch %d)%s" % (e, where),
                lrs, lrs_before)
    if best is not None:
        b = ctl.get_best_epoch()
        require(b == best, "get_best_epoch after epoch %d%s" % (e, where), b, best)


def _classes(ref, fired_es, fired_rlr, reduced, negligible, restarted_inside, cfg):
    cl = []
    if fired_es:
        cl.append("early_stop_fired")
    if fired_rlr:
        cl.append("reduction_fired")
    if reduced:
        cl.append("rate_reduced")
    if negligible:
        cl.append("negligible_change")
    if ref.fired_after_reset:
        cl.append("fired_after_reset")
    if restarted_inside:
        cl.append("restart_inside")
    if cfg["num_epochs"] is not None and ref.epoch >= cfg["num_epochs"]:
        cl.append("budget_reached")
    if cfg["rlr_cool"] and fired_rlr:
        cl.append("cooldown_used")
    if ref.eps_boundary:
        cl.append("change_equals_epsilon")
    cl.append("model_" + cfg.get("model", "plain"))
    cl.append("metrics_" + cfg.get("scale", "unit"))
    if cfg["factor"] == 0.1 and reduced:
        cl.append("default_factor_reduced")
    if any(isinstance(t, str) or abs(t) >= 1e300 for t in cfg["train"][: ref.epoch]):
        cl.append("train_metric_garbage")
    return cl


def _steps(cfg, root, storage, restarts, extras=(), light=False):
    """Drive the real controller over the history with the given restarts and extra calls; compare every epoch
    with the reference model. A generator: yields after every epoch (so that two runs can be interleaved);
    its return value is (nontrivial, classes, per-epoch records). The caller provides ``T.quiet()``.

    ``light``: for long histories - no per-epoch records (they grow quadratically)."""
    _check_domain(cfg)
    use_csv = storage != "mem"
    use_dir = storage == "dir"
    s = T.Session(cfg, root, use_csv=use_csv, use_dir=use_dir)
    ref = T.RefController(cfg, T.lr0_of(cfg))
    by_epoch = {}
    for e, how in restarts:
        by_epoch.setdefault(e, how)
    extra_at = {}
    for e, kind in extras:
        extra_at.setdefault(e, set()).add(kind)
    records = []
    used_extras = set()
    fired_es = fired_rlr = reduced = negligible = restarted_inside = False
    s.start()
    if cfg["lr_mode"] == "param":
        lrs = [g["lr"] for g in s.opt.param_groups]
        require(all(x == T.lr0_of(cfg) for x in lrs), "initial rate from log10_learning_rate not written to the optimizer",
                lrs, T.lr0_of(cfg))
    if 0 in by_epoch and use_csv:
        s.start(scramble=1) if (by_epoch[0] == "full" and use_dir) else s.rebuild_controller_only()
    n = len(cfg["val"])
    conts = []
    best, best_val = 0, T.INF
    for i in range(n):
        train, val = cfg["train"][i], cfg["val"][i]
        e = i + 1
        kinds = extra_at.get(e, ())
        lrs_before = [g["lr"] for g in s.opt.param_groups]
        cont_real = s.epoch(train, val, explicit_epoch="explicit_epoch" in kinds)
        if "explicit_epoch" in kinds:
            used_extras.add("call_explicit_epoch")
        cont_ref = ref.update(val)
        conts.append(cont_ref)
        if val < best_val:
            best, best_val = e, val
        # long histories: the controller's best-epoch scan is linear in the history, so it is asked at sampled epochs only
        ask_best = (not light) or e <= 40 or e % 16 in (0, 1) or e >= n - 2 or e in by_epoch
        _compare_epoch(s, ref, cont_real, cont_ref, lrs_before, train, val, best if ask_best else None)
        if "update_cache" in kinds:
            # documented as a manual refresh from the history file; nothing has changed, so nothing may change
            s.ctl.update_cache()
            used_extras.add("call_update_cache")
            _compare_epoch(s, ref, cont_real, cont_ref, lrs_before, train, val, best, " (after a manual update_cache())")
        if "query_past" in kinds:
            used_extras.add("call_query_past")
            for j in range(1, e + 1):
                cj = s.ctl.continue_training(j)
                require(cj == conts[j - 1], "continue_training(%d) asked after epoch %d" % (j, e), cj, conts[j - 1])
                require(_info_of(s.ctl, j)["epoch"] == s.ctl[j]["epoch"] == j, "controller[%d] after epoch %d" % (j, e), s.ctl[j]["epoch"], j)
        fired_es |= ref.es_fired
        fired_rlr |= ref.rlr_fired
        reduced |= ref.reduced
        negligible |= ref.rlr_fired and not ref.reduced
        if not light:
            records.append({"cont": cont_real, "csv": s.csv_bytes(), "snap": T.snapshot(s.model, s.opt),
                            "infos": [T.canon_info(_info_of(s.ctl, k)) for k in range(1, ref.epoch + 1)]})
        if e in by_epoch and use_csv:
            snap_before = T.snapshot(s.model, s.opt)
            if by_epoch[e] == "full" and use_dir:
                s.start(scramble=e + 1)
                snap_after = T.snapshot(s.model, s.opt)
                require(snap_after == snap_before, "state loaded after restart differs from the state saved at epoch %d" % e,
                        snap_after, snap_before)
            else:
                s.rebuild_controller_only()
            if cont_ref and e < n:
                restarted_inside = True
            # the rebuilt controller reports the same history and the same decision
            require(s.ctl.get_last_epoch() == e, "last epoch after restart", s.ctl.get_last_epoch(), e)
            cc = s.ctl.continue_training()
            require(cc == cont_ref, "continue_training() of the rebuilt controller after epoch %d" % e, cc, cont_ref)
            got = {k: _info_of(s.ctl, e, " after a restart")[k] for k in INFO_KEYS}
            require(got == ref.info(), "state re-read from the history file after epoch %d" % e, got, ref.info())
            b = s.ctl.get_best_epoch()
            require(b == best, "get_best_epoch of the rebuilt controller after epoch %d" % e, b, best)
        yield e
        if not cont_ref:
            break
    classes = _classes(ref, fired_es, fired_rlr, reduced, negligible, restarted_inside, cfg)
    classes.append("storage_" + storage)
    classes += sorted(used_extras)
    nontrivial = ref.fired_after_reset and restarted_inside
    if light:
        records = {"csv": s.csv_bytes(), "snap": T.snapshot(s.model, s.opt), "epochs": ref.epoch, "session": s}
    return nontrivial, classes, records


def _drive(gen):
    while True:
        try:
            next(gen)
        except StopIteration as stop:
            return stop.value


def _run_against_model(cfg, root, storage, restarts, extras=(), light=False):
    with T.quiet():
        return _drive(_steps(cfg, root, storage, restarts, extras, light))


# ---------------------------------------------------------------- sub-check: model


def _model_strategy(tier):
    max_len = 10 if tier == "quick" else 11

    @st.composite
    def s(draw):
        cfg = draw(config(max_len))
        cfg["storage"] = draw(st.sampled_from(["mem", "mem", "csv", "csv", "dir"]))
        cfg["restarts"] = draw(_restarts(len(cfg["val"])))
        cfg["extras"] = draw(_extras(len(cfg["val"])))
        return cfg

    return s()


@subcheck("C15", "decisions_vs_model", _model_strategy, quick=1500, thorough=40000,
          doc="generated parameters + metric history (+ restarts when a history file exists; + manual update_cache(), "
              "questions about earlier epochs, explicit epoch numbers): decision, countdowns, rate, optimizer groups after "
              "every epoch == explicit-reference-value model. Metrics on the unit grid, shifted negative, times 10**j, "
              "5-digit decimals times 10**-j, Python ints; non-finite / huge training metrics",
          required_classes=["early_stop_fired", "rate_reduced", "fired_after_reset", "negligible_change",
                            "restart_inside", "budget_reached", "change_equals_epsilon",
                            "metrics_negative", "metrics_big", "metrics_decimal", "metrics_int", "train_metric_garbage",
                            "call_update_cache", "call_query_past", "call_explicit_epoch", "model_strided", "model_f64buf",
                            "default_factor_reduced"])
def _model_check(case):
    storage = case["storage"]
    restarts = [tuple(r) for r in case["restarts"]]
    extras = [tuple(x) for x in case.get("extras", [])]
    if storage == "mem":
        nontrivial, classes, _ = _run_against_model(case, None, storage, restarts, extras)
        return Info(nontrivial=nontrivial, classes=classes)
    with T.scratch() as root:
        nontrivial, classes, _ = _run_against_model(case, root, storage, restarts, extras)
    return Info(nontrivial=nontrivial, classes=classes)


# ---------------------------------------------------------------- sub-check: exhaustive small grid


_ENUM_STEPS = [-0.5, -0.25, 0.0, 0.25]   # equal to the threshold / half of it (two in a row undercut a held reference) / flat / worse


def _enum_strategy(tier):
    length = 5 if tier == "quick" else 7
    out = []
    for es_pat, es_burn, rlr_pat, rlr_burn, rlr_cool in itertools.product((1, 2), (0, 1), (1, 2), (0, 1), (0, 1)):
        for steps in itertools.product(_ENUM_STEPS, repeat=length - 1):
            vals = [4.0]
            for d in steps:
                vals.append(vals[-1] + d)
            out.append({
                "num_epochs": None, "es_thr": 0.5, "es_pat": es_pat + 1, "es_burn": es_burn,
                "rlr_thr": 0.5, "rlr_pat": rlr_pat, "rlr_burn": rlr_burn, "rlr_cool": rlr_cool,
                "factor": 0.5, "eps": -8, "lr_mode": "opt", "lr_exp": 4, "groups": 1, "keep": True, "fmt": "default",
                "val": vals, "train": [1.0] * length, "storage": "mem", "restarts": [],
            })
    return out


subcheck("C15", "decisions_enum", _enum_strategy, 0, 0, exhaustive=True,
         doc="every metric walk of length 5|7 from 4.0 with steps {-0.5 (== threshold), -0.25, 0, +0.25} x stop patience {2,3} x "
             "rate patience {1,2} x burn-ins {0,1} x cool-down {0,1}, in memory: every epoch == reference model",
         required_classes=["early_stop_fired", "rate_reduced", "fired_after_reset"])(_model_check)


# ---------------------------------------------------------------- sub-check: restart differential


def _diff_strategy(tier):
    max_len = 8 if tier == "quick" else 11

    @st.composite
    def s(draw):
        cfg = draw(config(max_len, fmts=("default", "default", "custom", "subdir", "info"), min_len=2))
        n = len(cfg["val"])
        cfg["restarts"] = draw(st.lists(st.tuples(st.integers(0, n), st.sampled_from(["ctl", "full", "full"])),
                                        min_size=1, max_size=4))
        return cfg

    return s()


def _same_records(a, b, what):
    require(len(a) == len(b), "%s: number of epochs run" % what, len(a), len(b))
    for i, (x, y) in enumerate(zip(a, b), 1):
        require(x["cont"] == y["cont"], "%s: decision at epoch %d" % (what, i), x["cont"], y["cont"])
        require(x["infos"] == y["infos"], "%s: get_info of epochs 1..%d after epoch %d" % (what, i, i), x["infos"], y["infos"])
        require(x["csv"] == y["csv"], "%s: history file after epoch %d" % (what, i),
                x["csv"].decode() if x["csv"] else x["csv"], y["csv"].decode() if y["csv"] else y["csv"])
        require(x["snap"] == y["snap"], "%s: model / optimizer state after epoch %d" % (what, i), x["snap"], y["snap"])


@subcheck("C15", "restart_differential", _diff_strategy, quick=500, thorough=12000,
          doc="same history run twice on disk: with generated restarts (controller only, or everything rebuilt and "
              "loaded from the state directory) vs uninterrupted: decisions, get_info, CSV bytes, parameters, "
              "momentum and rates identical; both == reference model",
          required_classes=["restart_inside", "fired_after_reset", "rate_reduced", "fmt_info", "model_strided", "model_f64buf",
                            "metrics_decimal", "train_metric_garbage"])
def _diff_check(case):
    restarts = [tuple(r) for r in case["restarts"]]
    with T.scratch() as root_a, T.scratch() as root_b:
        _, _, base = _run_against_model(case, root_a, "dir", [])
        nontrivial, classes, recs = _run_against_model(case, root_b, "dir", restarts)
        _same_records(recs, base, "restarted vs uninterrupted")
    if case["keep"]:
        classes.append("keep_last_and_best")
    classes.append("fmt_" + case["fmt"])
    return Info(nontrivial=nontrivial, classes=classes)


# ---------------------------------------------------------------- sub-check: every subset of restart points


def _subsets_strategy(tier):
    max_len = 4 if tier == "quick" else 6
    return config(max_len, min_len=2)


@subcheck("C15", "restart_every_subset", _subsets_strategy, quick=150, thorough=3000,
          doc="generated history of length <= 4|6; for EVERY subset of epochs a run restarting (everything rebuilt) after "
              "exactly those epochs == the uninterrupted run (decisions, get_info, CSV bytes, state)",
          required_classes=["restart_inside"])
def _subsets_check(case):
    with T.scratch() as root:
        import os

        a = os.path.join(root, "u")
        os.mkdir(a)
        _, _, base = _run_against_model(case, a, "dir", [])
        n = len(base)
        classes_all = set()
        nontrivial = False
        k = 0
        for r in range(1, n + 1):
            for sub in itertools.combinations(range(1, n + 1), r):
                k += 1
                d = os.path.join(root, "r%d" % k)
                os.mkdir(d)
                nt, classes, recs = _run_against_model(case, d, "dir", [(e, "full") for e in sub])
                _same_records(recs, base, "restarts after epochs %s vs uninterrupted" % (list(sub),))
                classes_all.update(classes)
                nontrivial |= nt
    return Info(nontrivial=nontrivial, classes=sorted(classes_all) + ["subsets_%d" % (2 ** n - 1)])


# ---------------------------------------------------------------- sub-check: long histories


def _long_strategy(tier, which):
    if which == "large":
        sizes = tuple(x for x in T.SIZES if x > 1000) + (() if tier == "quick" else (4097,))
    else:
        sizes = tuple(x for x in T.SIZES if x < 1000)
    big = st.sampled_from([9, 10, 11, 15, 16, 17, 99, 100, 101])
    small3 = st.integers(1, 3)
    small2 = st.integers(0, 2)

    pool = sizes

    @st.composite
    def s(draw):
        q = draw(st.sampled_from([0.25, 1.0]))
        hi = 3999 if q == 0.25 else 99999
        # half of the cases cannot stop before the end (no early stopping, budget >= n), so that the large sizes are
        # really reached; in the other half a long run needs a long stopping patience or a history that keeps improving
        to_the_end = draw(st.booleans())
        es_t = 0 if to_the_end else draw(st.sampled_from([0, 1, 2, 4, 8]))
        rlr_t = draw(st.sampled_from([0, 1, 2, 4, 8]))
        eps = draw(st.sampled_from([-8, -1, 0, 0]))
        es_pat = draw(weighted((2, small3), (3, big)))
        rlr_pat = draw(weighted((2, small3), (3, big)))
        rlr_cool = draw(weighted((2, small2), (2, big)))
        lens = [1, 2, 3, 20, 50, 120, 700]
        for v in (es_pat, rlr_pat, rlr_cool):
            lens += [v - 1, v, v + 1]
        lens = sorted({v for v in lens if v >= 1})
        segs = draw(st.lists(st.tuples(st.integers(0, 5), st.sampled_from(lens), st.integers(0, 9)), min_size=1, max_size=8))
        start = draw(st.one_of(st.integers(0, hi), st.integers(0, 64), st.integers(hi - 64, hi)))
        # the size is a function of everything drawn so far (Hypothesis re-uses prefixes of earlier examples, which
        # would otherwise repeat one size many times in a small budget)
        mix = draw(st.integers(0, 10 ** 6)) + start + es_pat * 13 + rlr_pat * 17 + rlr_cool * 19 + sum(31 * a + 7 * b + c for a, b, c in segs)
        n = pool[mix % len(pool)]
        if eps == -8:
            # at most 23 halvings keep 2**16 on the printed grid: space the reductions out
            lr_exp = 16
            need = -(-n // 22)
            if rlr_pat + rlr_cool < need:
                rlr_cool = need - rlr_pat
        else:
            lr_exp = draw(st.integers(1, 16))   # the coarse epsilon stops the reductions at 2.0 (0.125)
        storage = draw(st.sampled_from(["mem", "csv", "csv", "dir"]))
        if storage == "dir" and n > (300 if tier == "quick" else 1100):
            storage = "csv"   # a state directory for > 1000 epochs only in the thorough tier (two checkpoints per epoch)
        cfg = {
            "n": n, "q": q, "start": start,
            "segs": [list(x) for x in segs],
            "num_epochs": draw(st.sampled_from([None, None, n, n + 5] if to_the_end else [None, None, n, n - 1, n + 5, 10, 100, 1000])),
            "es_thr": es_t * q, "es_pat": es_pat, "es_burn": draw(weighted((2, small2), (1, big))),
            "rlr_thr": rlr_t * q, "rlr_pat": rlr_pat, "rlr_burn": draw(weighted((2, small2), (1, big))), "rlr_cool": rlr_cool,
            "factor": 0.5, "eps": eps, "lr_mode": "opt", "lr_exp": lr_exp, "groups": draw(st.sampled_from([1, 2])),
            "keep": True, "fmt": "default", "model": draw(st.sampled_from(["plain", "strided", "f64buf"])),
            "storage": storage,
            "restarts": draw(st.lists(st.tuples(st.integers(0, n), st.sampled_from(["ctl", "full"])),
                                      min_size=0 if storage == "mem" else 1, max_size=3)),
            "extras": draw(st.lists(st.tuples(st.integers(1, n), st.sampled_from(list(EXTRAS))), max_size=2)),
        }
        return cfg

    return s()


def _size_classes(epochs):
    return ["epochs_ge_%d" % t for t in (16, 32, 64, 128, 256, 1024, 2049) if epochs >= t]


_LONG_DOC = ("histories of %s epochs - the sizes around %s - expanded deterministically "
             "from <= 8 generated segments (improve / plateau / worsen / zig-zag / jump, lengths around the patiences and the "
             "cool-down) on the grid k/4 <= 999.75 or k <= 99999; patiences, burn-ins, cool-downs of 1..3 and of 9..11, "
             "15..17, 99..101 (countdowns with two and three digits); num_epochs None / n-1 / n / n+5 / 10 / 100 / 1000; in "
             "memory, with a history file, with a state directory (n <= 257; thorough <= 1025); restarts; every epoch == "
             "reference model (get_best_epoch asked at sampled epochs: all up to 40, then every 16th and its successor, the "
             "last three and the restart points); afterwards a new controller re-reads every row; for n <= 257 the final "
             "history file and state of a run with restarts equal those of an uninterrupted run")


def _register_long(name, which, quick, thorough, doc, required):
    return subcheck("C15", name, lambda tier: _long_strategy(tier, which), quick=quick, thorough=thorough, doc=doc,
                    required_classes=required, timeout_s=6000)


def _long_check(case):
    cfg = dict(case)
    cfg["val"], cfg["train"] = T.expand_history(case)
    storage = case["storage"]
    restarts = [tuple(r) for r in case["restarts"]]
    extras = [tuple(x) for x in case["extras"]]
    infos, conts, ref = _check_domain(cfg)

    def final_checks(fin):
        s = fin["session"]
        if s.csv is None:
            return
        # a controller built afterwards re-reads every row
        ctl = T.make_controller(cfg, s.csv, s.sdir)
        require(ctl.get_last_epoch() == len(infos), "last epoch re-read from the history file", ctl.get_last_epoch(), len(infos))
        for j, exp in enumerate(infos, 1):
            info = _info_of(ctl, j, " in the re-read history")
            got = {k: info[k] for k in INFO_KEYS}
            require(got == exp, "row of epoch %d re-read from the history file" % j, got, exp)
            require(info["val_met"] == cfg["val"][j - 1] and info["train_met"] == cfg["train"][j - 1],
                    "metrics of epoch %d re-read from the history file" % j, [info["train_met"], info["val_met"]],
                    [cfg["train"][j - 1], cfg["val"][j - 1]])
        b = ctl.get_best_epoch()
        require(b == T.best_epoch(cfg["val"][: len(infos)]), "best epoch re-read from the history file", b,
                T.best_epoch(cfg["val"][: len(infos)]))

    if storage == "mem":
        nontrivial, classes, fin = _run_against_model(cfg, None, storage, restarts, extras, light=True)
    else:
        with T.scratch() as root, T.quiet():
            import os

            a, b = os.path.join(root, "a"), os.path.join(root, "b")
            os.mkdir(a)
            os.mkdir(b)
            nontrivial, classes, fin = _drive(_steps(cfg, a, storage, restarts, extras, light=True))
            final_checks(fin)
            if restarts and cfg["n"] <= 257:
                _, _, base = _drive(_steps(cfg, b, storage, [], (), light=True))
                require(fin["epochs"] == base["epochs"], "restarted vs uninterrupted: epochs run", fin["epochs"], base["epochs"])
                require(fin["csv"] == base["csv"], "restarted vs uninterrupted: final history file differs",
                        fin["csv"].decode()[-400:], base["csv"].decode()[-400:])
                require(fin["snap"] == base["snap"], "restarted vs uninterrupted: final model / optimizer state", fin["snap"],
                        base["snap"])
    epochs = fin["epochs"]
    classes += _size_classes(epochs)
    cds = []
    if cfg["es_thr"] > 0:
        cds += [cfg["es_pat"], cfg["es_burn"]]
    if cfg["rlr_thr"] > 0:
        cds += [cfg["rlr_pat"], cfg["rlr_burn"], cfg["rlr_cool"]]
    if cds and max(cds) >= 10:
        classes.append("countdown_ge_10")
    if cds and max(cds) >= 100:
        classes.append("countdown_ge_100")
    if cfg["num_epochs"] is not None and cfg["num_epochs"] >= 10:
        classes.append("num_epochs_ge_10")
    return Info(nontrivial=nontrivial, classes=classes)


_register_long("long_history", "small", 48, 1000, _LONG_DOC % ("15..257", "16, 32, 64, 128, 256"),
               ["epochs_ge_16", "epochs_ge_128", "countdown_ge_10", "countdown_ge_100", "restart_inside", "fired_after_reset",
                "rate_reduced", "early_stop_fired"])(_long_check)
_register_long("long_history_1k", "large", 20, 600, _LONG_DOC % ("1023..2049 (thorough 4097)", "1024 and 2048 (4096)"),
               ["epochs_ge_1024", "countdown_ge_10", "restart_inside"])(_long_check)


# ---------------------------------------------------------------- sub-check: two controllers alive at once


def _inter_strategy(tier):
    max_len = 6 if tier == "quick" else 9

    @st.composite
    def s(draw):
        a = draw(config(max_len, fmts=("default", "custom"), min_len=2))
        if draw(st.booleans()):
            # the same parameter values (hence, through trainctl.make_params, the same TrainingStateParams object),
            # another history
            b = dict(a, val=list(reversed(a["val"])), train=list(reversed(a["train"])))
            shared = True
        else:
            b = draw(config(max_len, fmts=("default", "custom"), min_len=2))
            shared = False
        out = {"shared": shared, "schedule": draw(st.lists(st.booleans(), min_size=2, max_size=2 * max_len))}
        for key, c in (("a", a), ("b", b)):
            c = dict(c)
            c["storage"] = draw(st.sampled_from(["mem", "csv", "dir"]))
            c["restarts"] = draw(_restarts(len(c["val"])))
            c["extras"] = draw(_extras(len(c["val"])))
            out[key] = c
        return out

    return s()


@subcheck("C15", "interleaved_controllers", _inter_strategy, quick=300, thorough=6000,
          doc="two training runs alive in the same process (own files, own model and optimizer; in half of the cases the same "
              "TrainingStateParams object), advanced epoch by epoch in a generated interleaving, each with its own restarts: "
              "each == its reference model at every epoch, i.e. no state leaks between controller objects",
          required_classes=["shared_params_object", "separate_params_objects", "both_ran_interleaved"])
def _inter_check(case):
    import os

    with T.scratch() as root, T.quiet():
        gens, done, results = {}, {}, {}
        for key in ("a", "b"):
            c = case[key]
            d = os.path.join(root, key)
            os.mkdir(d)
            gens[key] = _steps(c, d if c["storage"] != "mem" else None, c["storage"], [tuple(r) for r in c["restarts"]],
                               [tuple(x) for x in c["extras"]])
        order = ["a" if x else "b" for x in case["schedule"]]
        steps = {"a": 0, "b": 0}
        switches = 0
        last = None
        while len(results) < 2:
            key = order.pop(0) if order else ("a" if "a" not in results else "b")
            if key in results:
                key = "b" if key == "a" else "a"
            try:
                next(gens[key])
                steps[key] += 1
                if last is not None and last != key:
                    switches += 1
                last = key
            except StopIteration as stop:
                results[key] = stop.value
    classes = set()
    nontrivial = False
    for key in ("a", "b"):
        nt, cl, _ = results[key]
        nontrivial |= nt
        classes.update(cl)
    classes.add("shared_params_object" if case["shared"] else "separate_params_objects")
    if switches >= 2:
        classes.add("both_ran_interleaved")
    return Info(nontrivial=nontrivial and switches >= 2, classes=sorted(classes))


# ---------------------------------------------------------------- sub-check: user entries

import os as _os

# A str entry containing a carriage return comes back with "\n" instead: the history file is read with universal
# newlines (fixes/C15-entry-carriage-return.diff, replays/C15/entry-with-carriage-return.json). Until that patch is
# merged the class stays out of the generator and such cases are rejected; VERIF_C15_CR_ENTRIES=1 switches it on.
ENABLE_CR_IN_STR_ENTRIES = True  # repaired in /repo (newline="" commit)

_NAMES = ["note", "count", "x_mean", "Epoch", "lr2", "val", "k", "my entry", "a,b", "na\u00efve", "q\"uote"]
_TEXT = st.text(alphabet="abcXYZ 019,\"';.-_/\\#", max_size=8)
# blanks that are not ASCII spaces, line feeds and tabs inside the value, leading / trailing spaces, NUL, non-Latin text
_TEXT_WIDE = st.text(alphabet="a\u00e9\u6f22\u00a0\u3000\t\n\x00 ,\"" + ("\r" if ENABLE_CR_IN_STR_ENTRIES else ""), max_size=6)
_FLOAT_SPECIAL = ["inf", "-inf", 1e308, -1e308, 5e-324, -0.0, 0.1]
_MANY = (16, 17, 33)


def _many_entry(k, i, seed):
    """Entry k (name, type, fmt) and its value at epoch index i of the many-entries class: pure function."""
    t = ("int", "float", "str")[k % 3]
    x = (seed * 31 + k * 7 + i * 13) % 1000 - 500
    v = x if t == "int" else x / 8 if t == "float" else "s%d,%d" % (k, x)
    return ["x%02d" % k, t, "{}"], v


@st.composite
def _entries_case(draw, tier):
    cfg = draw(config(5, min_len=1))
    n = len(cfg["val"])
    names = draw(st.lists(st.sampled_from(_NAMES), min_size=1, max_size=3, unique=True))
    entries, values = [], {}
    for name in names:
        t = draw(st.sampled_from(["int", "float", "str"]))
        if t == "int":
            fmt = draw(st.sampled_from(["{}", "{:04d}", "{:d}"]))
            vals = draw(st.lists(st.one_of(st.integers(-10**6, 10**6), st.integers(-10**30, 10**30),
                                            st.sampled_from([10**30 - 1, 1 - 10**30, 10**29 + 7, 2**64])), min_size=n, max_size=n))
        elif t == "float":
            fmt = draw(st.sampled_from(["{}", "{!r}", "{:.3f}"]))
            if fmt == "{:.3f}":
                vals = draw(st.lists(dyadic(8, -50, 50), min_size=n, max_size=n))
            else:
                vals = draw(st.lists(st.one_of(st.floats(allow_nan=False, allow_infinity=False, width=64),
                                               st.sampled_from(_FLOAT_SPECIAL)), min_size=n, max_size=n))
        else:
            fmt = draw(st.sampled_from(["{}", "{:s}"]))
            vals = draw(st.lists(st.one_of(_TEXT, _TEXT_WIDE), min_size=n, max_size=n))
        entries.append([name, t, fmt])
        values[name] = vals
    cfg["entries"] = entries
    cfg["values"] = values
    # many declared entries (16 / 17 / 33 more columns), their values expanded from one integer
    cfg["many"] = draw(st.sampled_from([0, 0, 0] + list(_MANY)))
    cfg["many_seed"] = draw(st.integers(0, 1000))
    cfg["storage"] = draw(st.sampled_from(["csv", "dir"]))
    cfg["restarts"] = draw(st.lists(st.integers(0, n), max_size=3))
    return cfg


def _entries_strategy(tier):
    return _entries_case(tier)


@subcheck("C15", "user_entries", _entries_strategy, quick=500, thorough=10000,
          doc="1-3 declared entries (int incl. 30-digit values / float incl. inf, the largest and smallest doubles, -0.0 / str "
              "incl. commas, quotes, non-ASCII text and blanks, tabs, line feeds, NUL; odd entry names; several format strings), "
              "optionally 16 / 17 / 33 further entries expanded from one integer; restarts: every epoch's entries come back "
              "equal and with the declared type, before and after restarts",
          required_classes=["restart_inside", "str_with_comma_or_quote", "str_with_line_feed", "str_non_ascii",
                            "float_special", "int_30_digits", "many_entries", "odd_entry_name"])
def _entries_check(case):
    infos, conts, ref = _check_domain(case)
    entries = [tuple(e) for e in case["entries"]]
    values = {name: list(v) for name, v in case["values"].items()}
    n_all = len(case["val"])
    for k in range(case.get("many", 0)):
        ent, _ = _many_entry(k, 0, case.get("many_seed", 0))
        entries.append(tuple(ent))
        values[ent[0]] = [_many_entry(k, i, case.get("many_seed", 0))[1] for i in range(n_all)]
    for name, tname, _ in entries:
        if tname == "float":
            values[name] = [T.num(v) for v in values[name]]
        if tname == "str" and not ENABLE_CR_IN_STR_ENTRIES and any("\r" in v for v in values[name]):
            raise Reject("carriage return in a str entry: class switched off (see ENABLE_CR_IN_STR_ENTRIES)")
    n_run = len(infos)
    restarts = set(case["restarts"])
    classes = set()
    if case.get("many", 0):
        classes.add("many_entries")
    with T.scratch() as root, T.quiet():
        s = T.Session(case, root, use_csv=True, use_dir=case["storage"] == "dir", entries=entries)
        s.start()

        def verify(upto, where):
            for e in range(1, upto + 1):
                info = _info_of(s.ctl, e)
                for name, tname, _ in entries:
                    exp = values[name][e - 1]
                    got = info[name]
                    require(type(got) is T.ENTRY_TYPES[tname], "type of entry %r of epoch %d %s" % (name, e, where),
                            type(got).__name__, tname)
                    require(got == exp, "value of entry %r of epoch %d %s" % (name, e, where), got, exp)

        if 0 in restarts:
            s.rebuild_controller_only()
        for i in range(n_run):
            user = {name: values[name][i] for name, _, _ in entries}
            for name, tname, _ in entries:
                v = user[name]
                if tname == "str":
                    if any(ch in v for ch in ",\"'"):
                        classes.add("str_with_comma_or_quote")
                    if "\n" in v:
                        classes.add("str_with_line_feed")
                    if "\r" in v:
                        classes.add("str_with_carriage_return")
                    if any(ord(ch) > 127 for ch in v):
                        classes.add("str_non_ascii")
                elif tname == "float" and (v in (float("inf"), float("-inf")) or abs(v) >= 1e308 or v == 5e-324):
                    classes.add("float_special")
                elif tname == "int" and abs(v) >= 10 ** 29:
                    classes.add("int_30_digits")
                if not name.isidentifier():
                    classes.add("odd_entry_name")
                classes.add("type_" + tname)
            cont = s.epoch(case["train"][i], case["val"][i], **user)
            require(cont == conts[i], "decision at epoch %d with user entries" % (i + 1), cont, conts[i])
            verify(i + 1, "before any restart of this controller")
            if (i + 1) in restarts:
                if case["storage"] == "dir":
                    s.start(scramble=i + 1)
                else:
                    s.rebuild_controller_only()
                verify(i + 1, "after restart at epoch %d" % (i + 1))
                if i + 1 < n_run:
                    classes.add("restart_inside")
        # a reader that declares nothing still gets the built-in columns (documented)
        plain = T.make_controller(case, s.csv, s.sdir)
        for e in range(1, n_run + 1):
            got = {k: _info_of(plain, e)[k] for k in INFO_KEYS}
            require(got == infos[e - 1], "built-in columns read without declaring the user entries (epoch %d)" % e,
                    got, infos[e - 1])
    if ref.fired_after_reset:
        classes.add("fired_after_reset")
    return Info(nontrivial=ref.fired_after_reset and "restart_inside" in classes, classes=sorted(classes))
