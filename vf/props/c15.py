"""C15 Training control decisions follow the stated rules and survive restarts."""
from __future__ import annotations

import itertools

from hypothesis import strategies as st

from ..core import Info, Reject, require, subcheck
from ..gen import dyadic, weighted
from .. import trainctl as T

INFO_KEYS = ("epoch", "es_resume_cd", "es_patience_cd", "rlr_resume_cd", "rlr_patience_cd", "lr")


# ---------------------------------------------------------------- strategies


def _metric_seq(n):
    free = st.lists(dyadic(4, 0, 8), min_size=n, max_size=n)
    # a walk with small steps: plateaus and sub-threshold improvements are frequent
    step = st.sampled_from([-1.0, -0.5, -0.25, 0.0, 0.0, 0.25, 0.5])

    def walk(args):
        start, steps = args
        out, v = [], start
        for s in steps:
            out.append(v)
            v = min(8.0, max(0.0, v + s))
        return out

    walked = st.tuples(dyadic(4, 2, 8), st.lists(step, min_size=n, max_size=n)).map(walk)
    return st.one_of(free, walked, walked)


@st.composite
def config(draw, max_len, fmts=("default",), keep=None, min_len=1):
    n = draw(st.integers(min_len, max_len))
    thr = weighted((1, st.just(0.0)), (4, dyadic(4, 0.25, 2)))
    factor = draw(st.sampled_from([0.5, 0.25]))
    eps = draw(st.sampled_from([-8, -8, -1, 0]))
    rlr_pat = draw(st.integers(1, 3))
    bits = 1 if factor == 0.5 else 2
    max_red = n // rlr_pat
    lr_mode = draw(st.sampled_from(["opt", "opt", "opt", "param"]))
    if lr_mode == "param" and eps == -8 and bits * max_red > 7:
        lr_mode = "opt"
    if lr_mode == "param":
        lr_exp = draw(st.integers(-3, 4))
    elif eps == -8:
        # every rate reachable by the generated number of reductions stays on the 5-digit grid
        lr_exp = draw(st.integers(min(16, -7 + bits * max_red), 16))
    else:
        # with a coarse epsilon small rates exercise the "change is negligible" branch
        lr_exp = draw(st.one_of(st.integers(-4, 4), st.integers(-7, 16)))
    cfg = {
        "num_epochs": draw(st.one_of(st.none(), st.integers(1, 8))),
        "es_thr": draw(thr),
        "es_pat": draw(st.integers(1, 3)),
        "es_burn": draw(st.integers(0, 2)),
        "rlr_thr": draw(thr),
        "rlr_pat": rlr_pat,
        "rlr_burn": draw(st.integers(0, 2)),
        "rlr_cool": draw(st.integers(0, 2)),
        "factor": factor,
        "eps": eps,
        "lr_mode": lr_mode,
        "lr_exp": lr_exp,
        "groups": draw(st.sampled_from([1, 2])),
        "keep": draw(st.booleans()) if keep is None else keep,
        "fmt": draw(st.sampled_from(list(fmts))),
    }
    if draw(st.integers(0, 9)) == 0:
        # boundary class: reductions fire almost every epoch and the rate passes through 2 -> 1, where the
        # change equals epsilon = 10**0 exactly (must count as negligible)
        cfg.update({"eps": 0, "factor": 0.5, "lr_mode": "opt", "lr_exp": draw(st.integers(1, 3)), "rlr_thr": 2.0,
                    "rlr_pat": 1, "rlr_burn": 0, "rlr_cool": draw(st.integers(0, 1)), "es_thr": draw(st.sampled_from([0.0, 0.25]))})
    cfg["val"] = draw(_metric_seq(n))
    cfg["train"] = draw(st.lists(dyadic(4, 0, 8), min_size=n, max_size=n))
    return cfg


def _restarts(n):
    """Restart points: after which epochs (1-based) the controller is discarded, and how."""
    return st.lists(st.tuples(st.integers(0, n), st.sampled_from(["ctl", "full"])), max_size=4)


def _check_domain(cfg):
    """The property is stated for rates that the history file prints exactly."""
    infos, conts, ref = T.ref_trajectory(cfg, cfg["val"])
    if not T.representable5(T.lr0_of(cfg)) or not all(T.representable5(i["lr"]) for i in infos):
        raise Reject("learning rate leaves the 5-significant-digit grid")
    return infos, conts, ref


# ---------------------------------------------------------------- per-epoch comparison


def _compare_epoch(s, ref, cont_real, cont_ref, lrs_before, train, val, vals_so_far, where=""):
    ctl = s.ctl
    e = ref.epoch
    require(cont_real is cont_ref or cont_real == cont_ref,
            "update_for_epoch decision (continue?) at epoch %d%s" % (e, where), cont_real, cont_ref)
    require(ctl.get_last_epoch() == e, "get_last_epoch after update%s" % where, ctl.get_last_epoch(), e)
    cc = ctl.continue_training()
    require(cc == cont_ref, "continue_training() after epoch %d%s" % (e, where), cc, cont_ref)
    info = ctl.get_info(e)
    exp = ref.info()
    got = {k: info[k] for k in INFO_KEYS}
    require(got == exp, "countdowns / learning rate recorded for epoch %d%s" % (e, where), got, exp)
    require(info["train_met"] == train and info["val_met"] == val, "metrics recorded for epoch %d" % e,
            [info["train_met"], info["val_met"]], [train, val])
    lrs = [g["lr"] for g in s.opt.param_groups]
    if ref.reduced:
        require(all(x == ref.lr for x in lrs), "reduced rate not written into every optimizer group (epoch %d)%s" % (e, where),
                lrs, ref.lr)
    else:
        require(lrs == lrs_before, "optimizer rate changed although no reduction was due (epoch %d)%s" % (e, where),
                lrs, lrs_before)
    b = ctl.get_best_epoch()
    require(b == T.best_epoch(vals_so_far), "get_best_epoch after epoch %d" % e, b, T.best_epoch(vals_so_far))


def _classes(ref, fired_es, fired_rlr, reduced, negligible, restarted_inside, cfg):
    cl = []
    if fired_es:
        cl.append("early_stop_fired")
    if fired_rlr:
        cl.append("reduction_fired")
    if reduced:
        cl.append("rate_reduced")
    if negligible:
        cl.append("negligible_change")
    if ref.fired_after_reset:
        cl.append("fired_after_reset")
    if restarted_inside:
        cl.append("restart_inside")
    if cfg["num_epochs"] is not None and ref.epoch >= cfg["num_epochs"]:
        cl.append("budget_reached")
    if cfg["rlr_cool"] and fired_rlr:
        cl.append("cooldown_used")
    if ref.eps_boundary:
        cl.append("change_equals_epsilon")
    return cl


def _run_against_model(cfg, root, storage, restarts, uninterrupted=None):
    """Drive the real controller over the history with the given restarts; compare every epoch
    with the reference model. Returns (Info pieces, per-epoch records)."""
    _check_domain(cfg)
    use_csv = storage != "mem"
    use_dir = storage == "dir"
    s = T.Session(cfg, root, use_csv=use_csv, use_dir=use_dir)
    ref = T.RefController(cfg, T.lr0_of(cfg))
    by_epoch = {}
    for e, how in restarts:
        by_epoch.setdefault(e, how)
    records = []
    fired_es = fired_rlr = reduced = negligible = restarted_inside = False
    with T.quiet():
        s.start()
        if cfg["lr_mode"] == "param":
            lrs = [g["lr"] for g in s.opt.param_groups]
            require(all(x == T.lr0_of(cfg) for x in lrs), "initial rate from log10_learning_rate not written to the optimizer",
                    lrs, T.lr0_of(cfg))
        if 0 in by_epoch and use_csv:
            s.start(scramble=1) if (by_epoch[0] == "full" and use_dir) else s.rebuild_controller_only()
        n = len(cfg["val"])
        cont = True
        for i in range(n):
            train, val = cfg["train"][i], cfg["val"][i]
            lrs_before = [g["lr"] for g in s.opt.param_groups]
            cont_real = s.epoch(train, val)
            cont_ref = ref.update(val)
            _compare_epoch(s, ref, cont_real, cont_ref, lrs_before, train, val, cfg["val"][: i + 1])
            fired_es |= ref.es_fired
            fired_rlr |= ref.rlr_fired
            reduced |= ref.reduced
            negligible |= ref.rlr_fired and not ref.reduced
            records.append({"cont": cont_real, "csv": s.csv_bytes(), "snap": T.snapshot(s.model, s.opt),
                            "infos": [dict(s.ctl.get_info(k)) for k in range(1, ref.epoch + 1)]})
            e = i + 1
            if e in by_epoch and use_csv:
                snap_before = T.snapshot(s.model, s.opt)
                if by_epoch[e] == "full" and use_dir:
                    s.start(scramble=e + 1)
                    snap_after = T.snapshot(s.model, s.opt)
                    require(snap_after == snap_before, "state loaded after restart differs from the state saved at epoch %d" % e,
                            snap_after, snap_before)
                else:
                    s.rebuild_controller_only()
                if cont_ref and e < n:
                    restarted_inside = True
                # the rebuilt controller reports the same history and the same decision
                require(s.ctl.get_last_epoch() == e, "last epoch after restart", s.ctl.get_last_epoch(), e)
                cc = s.ctl.continue_training()
                require(cc == cont_ref, "continue_training() of the rebuilt controller after epoch %d" % e, cc, cont_ref)
                got = {k: s.ctl.get_info(e)[k] for k in INFO_KEYS}
                require(got == ref.info(), "state re-read from the history file after epoch %d" % e, got, ref.info())
            if not cont_ref:
                break
    classes = _classes(ref, fired_es, fired_rlr, reduced, negligible, restarted_inside, cfg)
    classes.append("storage_" + storage)
    nontrivial = ref.fired_after_reset and restarted_inside
    return nontrivial, classes, records


# ---------------------------------------------------------------- sub-check: model


def _model_strategy(tier):
    max_len = 10 if tier == "quick" else 11

    @st.composite
    def s(draw):
        cfg = draw(config(max_len))
        cfg["storage"] = draw(st.sampled_from(["mem", "mem", "csv", "csv", "dir"]))
        cfg["restarts"] = draw(_restarts(len(cfg["val"])))
        return cfg

    return s()


@subcheck("C15", "decisions_vs_model", _model_strategy, quick=1500, thorough=40000,
          doc="generated parameters + metric history (+ restarts when a history file exists): decision, countdowns, "
              "rate, optimizer groups after every epoch == explicit-reference-value model",
          required_classes=["early_stop_fired", "rate_reduced", "fired_after_reset", "negligible_change",
                            "restart_inside", "budget_reached", "change_equals_epsilon"])
def _model_check(case):
    storage = case["storage"]
    restarts = [tuple(r) for r in case["restarts"]]
    if storage == "mem":
        nontrivial, classes, _ = _run_against_model(case, None, storage, restarts)
        return Info(nontrivial=nontrivial, classes=classes)
    with T.scratch() as root:
        nontrivial, classes, _ = _run_against_model(case, root, storage, restarts)
    return Info(nontrivial=nontrivial, classes=classes)


# ---------------------------------------------------------------- sub-check: exhaustive small grid


_ENUM_STEPS = [-0.5, -0.25, 0.0, 0.25]   # equal to the threshold / half of it (two in a row undercut a held reference) / flat / worse


def _enum_strategy(tier):
    length = 5 if tier == "quick" else 7
    out = []
    for es_pat, es_burn, rlr_pat, rlr_burn, rlr_cool in itertools.product((1, 2), (0, 1), (1, 2), (0, 1), (0, 1)):
        for steps in itertools.product(_ENUM_STEPS, repeat=length - 1):
            vals = [4.0]
            for d in steps:
                vals.append(vals[-1] + d)
            out.append({
                "num_epochs": None, "es_thr": 0.5, "es_pat": es_pat + 1, "es_burn": es_burn,
                "rlr_thr": 0.5, "rlr_pat": rlr_pat, "rlr_burn": rlr_burn, "rlr_cool": rlr_cool,
                "factor": 0.5, "eps": -8, "lr_mode": "opt", "lr_exp": 4, "groups": 1, "keep": True, "fmt": "default",
                "val": vals, "train": [1.0] * length, "storage": "mem", "restarts": [],
            })
    return out


subcheck("C15", "decisions_enum", _enum_strategy, 0, 0, exhaustive=True,
         doc="every metric walk of length 5|7 from 4.0 with steps {-0.5 (== threshold), -0.25, 0, +0.25} x stop patience {2,3} x "
             "rate patience {1,2} x burn-ins {0,1} x cool-down {0,1}, in memory: every epoch == reference model",
         required_classes=["early_stop_fired", "rate_reduced", "fired_after_reset"])(_model_check)


# ---------------------------------------------------------------- sub-check: restart differential


def _diff_strategy(tier):
    max_len = 8 if tier == "quick" else 11

    @st.composite
    def s(draw):
        cfg = draw(config(max_len, fmts=("default", "default", "custom", "subdir"), min_len=2))
        n = len(cfg["val"])
        cfg["restarts"] = draw(st.lists(st.tuples(st.integers(0, n), st.sampled_from(["ctl", "full", "full"])),
                                        min_size=1, max_size=4))
        return cfg

    return s()


def _same_records(a, b, what):
    require(len(a) == len(b), "%s: number of epochs run" % what, len(a), len(b))
    for i, (x, y) in enumerate(zip(a, b), 1):
        require(x["cont"] == y["cont"], "%s: decision at epoch %d" % (what, i), x["cont"], y["cont"])
        require(x["infos"] == y["infos"], "%s: get_info of epochs 1..%d after epoch %d" % (what, i, i), x["infos"], y["infos"])
        require(x["csv"] == y["csv"], "%s: history file after epoch %d" % (what, i),
                x["csv"].decode() if x["csv"] else x["csv"], y["csv"].decode() if y["csv"] else y["csv"])
        require(x["snap"] == y["snap"], "%s: model / optimizer state after epoch %d" % (what, i), x["snap"], y["snap"])


@subcheck("C15", "restart_differential", _diff_strategy, quick=500, thorough=12000,
          doc="same history run twice on disk: with generated restarts (controller only, or everything rebuilt and "
              "loaded from the state directory) vs uninterrupted: decisions, get_info, CSV bytes, parameters, "
              "momentum and rates identical; both == reference model",
          required_classes=["restart_inside", "fired_after_reset", "rate_reduced"])
def _diff_check(case):
    restarts = [tuple(r) for r in case["restarts"]]
    with T.scratch() as root_a, T.scratch() as root_b:
        _, _, base = _run_against_model(case, root_a, "dir", [])
        nontrivial, classes, recs = _run_against_model(case, root_b, "dir", restarts)
        _same_records(recs, base, "restarted vs uninterrupted")
    if case["keep"]:
        classes.append("keep_last_and_best")
    return Info(nontrivial=nontrivial, classes=classes)


# ---------------------------------------------------------------- sub-check: every subset of restart points


def _subsets_strategy(tier):
    max_len = 4 if tier == "quick" else 6
    return config(max_len, min_len=2)


@subcheck("C15", "restart_every_subset", _subsets_strategy, quick=150, thorough=3000,
          doc="generated history of length <= 4|6; for EVERY subset of epochs a run restarting (everything rebuilt) after "
              "exactly those epochs == the uninterrupted run (decisions, get_info, CSV bytes, state)",
          required_classes=["restart_inside"])
def _subsets_check(case):
    with T.scratch() as root:
        import os

        a = os.path.join(root, "u")
        os.mkdir(a)
        _, _, base = _run_against_model(case, a, "dir", [])
        n = len(base)
        classes_all = set()
        nontrivial = False
        k = 0
        for r in range(1, n + 1):
            for sub in itertools.combinations(range(1, n + 1), r):
                k += 1
                d = os.path.join(root, "r%d" % k)
                os.mkdir(d)
                nt, classes, recs = _run_against_model(case, d, "dir", [(e, "full") for e in sub])
                _same_records(recs, base, "restarts after epochs %s vs uninterrupted" % (list(sub),))
                classes_all.update(classes)
                nontrivial |= nt
    return Info(nontrivial=nontrivial, classes=sorted(classes_all) + ["subsets_%d" % (2 ** n - 1)])


# ---------------------------------------------------------------- sub-check: user entries

_NAMES = ["note", "count", "x_mean", "Epoch", "lr2", "val", "k"]
_TEXT = st.text(alphabet="abcXYZ 019,\"';.-_/\\#", max_size=8)


@st.composite
def _entries_case(draw, tier):
    cfg = draw(config(5, min_len=1))
    n = len(cfg["val"])
    names = draw(st.lists(st.sampled_from(_NAMES), min_size=1, max_size=3, unique=True))
    entries, values = [], {}
    for name in names:
        t = draw(st.sampled_from(["int", "float", "str"]))
        if t == "int":
            fmt = draw(st.sampled_from(["{}", "{:04d}", "{:d}"]))
            vals = draw(st.lists(st.integers(-10**6, 10**6), min_size=n, max_size=n))
        elif t == "float":
            fmt = draw(st.sampled_from(["{}", "{!r}", "{:.3f}"]))
            if fmt == "{:.3f}":
                vals = draw(st.lists(dyadic(8, -50, 50), min_size=n, max_size=n))
            else:
                vals = draw(st.lists(st.floats(allow_nan=False, allow_infinity=False, width=64), min_size=n, max_size=n))
        else:
            fmt = draw(st.sampled_from(["{}", "{:s}"]))
            vals = draw(st.lists(_TEXT, min_size=n, max_size=n))
        entries.append([name, t, fmt])
        values[name] = vals
    cfg["entries"] = entries
    cfg["values"] = values
    cfg["storage"] = draw(st.sampled_from(["csv", "dir"]))
    cfg["restarts"] = draw(st.lists(st.integers(0, n), max_size=3))
    return cfg


def _entries_strategy(tier):
    return _entries_case(tier)


@subcheck("C15", "user_entries", _entries_strategy, quick=500, thorough=10000,
          doc="1-3 declared entries (int / float / str incl. commas and quotes, several format strings), generated values, "
              "restarts: every epoch's entries come back equal and with the declared type, before and after restarts",
          required_classes=["restart_inside", "str_with_comma_or_quote"])
def _entries_check(case):
    infos, conts, ref = _check_domain(case)
    entries = [tuple(e) for e in case["entries"]]
    n_run = len(infos)
    restarts = set(case["restarts"])
    classes = set()
    with T.scratch() as root, T.quiet():
        s = T.Session(case, root, use_csv=True, use_dir=case["storage"] == "dir", entries=entries)
        s.start()

        def verify(upto, where):
            for e in range(1, upto + 1):
                info = s.ctl.get_info(e)
                for name, tname, _ in entries:
                    exp = case["values"][name][e - 1]
                    got = info[name]
                    require(type(got) is T.ENTRY_TYPES[tname], "type of entry %r of epoch %d %s" % (name, e, where),
                            type(got).__name__, tname)
                    require(got == exp, "value of entry %r of epoch %d %s" % (name, e, where), got, exp)

        if 0 in restarts:
            s.rebuild_controller_only()
        for i in range(n_run):
            user = {name: case["values"][name][i] for name, _, _ in entries}
            for name, tname, _ in entries:
                if tname == "str" and any(ch in user[name] for ch in ",\"'"):
                    classes.add("str_with_comma_or_quote")
                classes.add("type_" + tname)
            cont = s.epoch(case["train"][i], case["val"][i], **user)
            require(cont == conts[i], "decision at epoch %d with user entries" % (i + 1), cont, conts[i])
            verify(i + 1, "before any restart of this controller")
            if (i + 1) in restarts:
                if case["storage"] == "dir":
                    s.start(scramble=i + 1)
                else:
                    s.rebuild_controller_only()
                verify(i + 1, "after restart at epoch %d" % (i + 1))
                if i + 1 < n_run:
                    classes.add("restart_inside")
        # a reader that declares nothing still gets the built-in columns (documented)
        plain = T.make_controller(case, s.csv, s.sdir)
        for e in range(1, n_run + 1):
            got = {k: plain.get_info(e)[k] for k in INFO_KEYS}
            require(got == infos[e - 1], "built-in columns read without declaring the user entries (epoch %d)" % e,
                    got, infos[e - 1])
    if ref.fired_after_reset:
        classes.add("fired_after_reset")
    return Info(nontrivial=ref.fired_after_reset and "restart_inside" in classes, classes=sorted(classes))
