"""C01 Edit distance is the weighted Levenshtein distance, per pair and per prefix."""
from __future__ import annotations

import warnings

from hypothesis import strategies as st

from ..core import Info, Violation, close, require, subcheck
from ..oracles import strings as O
from . import _strgen as G


def _lib():
    import pydrobert.torch.functional as F
    import pydrobert.torch.modules as M

    return F, M


def _tol_eq(got, exp, exact):
    if exact:
        return close(got, exp, rel=1e-6, abs_=1e-7)
    return close(got, exp, rel=2e-5, abs_=1e-5)


def _expected_distance(ref, hyp, costs, norm):
    D = O.wf_table(ref, hyp, *costs)
    d = D[len(ref)][len(hyp)]
    if norm:
        if len(ref) == 0:
            # convention announced by the library's own warning text
            return 0.0 if len(hyp) == 0 else 1.0
        return d / len(ref)
    return d


def _call_edit_distance(case, ref, hyp, entry):
    F, M = _lib()
    ins, dele, sub = case["costs"]
    kw = dict(eos=case["b"]["eos"], include_eos=case["include_eos"], norm=case["norm"],
              batch_first=case["batch_first"], ins_cost=ins, del_cost=dele, sub_cost=sub)
    with warnings.catch_warnings():
        warnings.simplefilter("ignore")
        if entry == "module":
            return M.EditDistance(warn=False, **kw)(ref, hyp)
        return F.edit_distance(ref, hyp, warn=False, **kw)


def _call_prefix(case, ref, hyp, entry):
    F, M = _lib()
    ins, dele, sub = case["costs"]
    kw = dict(eos=case["b"]["eos"], include_eos=case["include_eos"], norm=case["norm"],
              batch_first=case["batch_first"], ins_cost=ins, del_cost=dele, sub_cost=sub,
              padding=case["padding"], exclude_last=case["exclude_last"])
    with warnings.catch_warnings():
        warnings.simplefilter("ignore")
        if entry == "module":
            return M.PrefixEditDistances(warn=False, **kw)(ref, hyp)
        return F.prefix_edit_distances(ref, hyp, warn=False, **kw)


def _config(draw, costs_strategy, tier, **bkw):
    return {
        "b": draw(G.batch(tier, **bkw)),
        "costs": draw(costs_strategy),
        "include_eos": draw(st.booleans()),
        "norm": draw(st.booleans()),
        "batch_first": draw(st.booleans()),
        "exclude_last": draw(st.booleans()),
        "padding": draw(st.sampled_from([-1, -100, 0, 7])),
        "entry": draw(st.sampled_from(["function", "module"])),
        "layout": draw(st.sampled_from(G.LAYOUTS)),
    }


@st.composite
def _dyadic_case(draw, tier):
    return _config(draw, G.dyadic_costs(), tier)


@st.composite
def _nondyadic_case(draw, tier):
    return _config(draw, G.nondyadic_costs(), tier)


def _nontrivial(b, rl, hl, costs):
    cl = G.common_classes(b, rl, hl, costs)
    nt = ("ragged" in cl or "empty_ref_with_eos" in cl or "empty_hyp_with_eos" in cl
          or "post_eos_garbage" in cl or "costs_unequal" in cl)
    return nt, cl


def _distance_check(case, exact):
    b = case["b"]
    ref, hyp = G.to_tensors(b, case["batch_first"], case.get("layout", "contiguous"))
    got = _call_edit_distance(case, ref, hyp, case["entry"])
    require(tuple(got.shape) == (b["N"],), "edit_distance result shape", tuple(got.shape), (b["N"],))
    got = got.tolist()
    rl, hl = G.lens_of(b, case["include_eos"])
    for n in range(b["N"]):
        r, h = b["refs"][n][: rl[n]], b["hyps"][n][: hl[n]]
        exp = _expected_distance(r, h, case["costs"], case["norm"])
        require(_tol_eq(got[n], exp, exact), "edit distance of pair %d (ref=%s hyp=%s)" % (n, r, h), got[n], exp)
    nt, cl = _nontrivial(b, rl, hl, case["costs"])
    cl.append("entry_" + case["entry"])
    cl.append("layout_" + case.get("layout", "contiguous"))
    if case["norm"]:
        cl.append("norm")
    return Info(nontrivial=nt, classes=cl)


@subcheck("C01", "dist_vs_dp", lambda tier: _dyadic_case(tier), 2500, 60000,
          doc="edit_distance (function and module) vs scalar Wagner-Fischer per pair; dyadic costs, exact comparison",
          required_classes=["empty_ref_with_eos", "empty_hyp_with_eos", "post_eos_garbage", "ragged", "costs_unequal",
                            "eos_inside", "eos_none"])
def _dist_vs_dp(case):
    return _distance_check(case, exact=True)


@subcheck("C01", "dist_nondyadic", lambda tier: _nondyadic_case(tier), 800, 20000,
          doc="edit_distance with non-dyadic costs (0.3, 1.7, ...) vs Wagner-Fischer in float64, rel tol 2e-5")
def _dist_nondyadic(case):
    return _distance_check(case, exact=False)


def _prefix_check(case, exact):
    b = case["b"]
    N, H = b["N"], b["H"]
    ref, hyp = G.to_tensors(b, case["batch_first"], case.get("layout", "contiguous"))
    got = _call_prefix(case, ref, hyp, case["entry"])
    rows = H if case["exclude_last"] else H + 1
    exp_shape = (N, rows) if case["batch_first"] else (rows, N)
    require(tuple(got.shape) == exp_shape, "prefix_edit_distances result shape", tuple(got.shape), exp_shape)
    if not case["batch_first"]:
        got = got.t()
    got = got.tolist()
    rl, hl = G.lens_of(b, case["include_eos"])
    pad = float(case["padding"])
    saw_pad = False
    for n in range(N):
        r, h = b["refs"][n][: rl[n]], b["hyps"][n][: hl[n]]
        D = O.wf_table(r, h, *case["costs"])
        nprefix = len(h) + (0 if case["exclude_last"] else 1)
        for k in range(rows):
            if k < nprefix:
                exp = D[len(r)][k]
                if case["norm"]:
                    exp = (0.0 if k == 0 else 1.0) if len(r) == 0 else exp / len(r)
                require(_tol_eq(got[n][k], exp, exact), "prefix distance pair %d prefix %d (ref=%s hyp=%s)" % (n, k, r, h),
                        got[n][k], exp)
            else:
                saw_pad = True
                require(got[n][k] == pad, "position past the hypothesis is not the padding value (pair %d, index %d)" % (n, k),
                        got[n][k], pad)
    nt, cl = _nontrivial(b, rl, hl, case["costs"])
    if saw_pad:
        cl.append("has_padding")
    if case["exclude_last"]:
        cl.append("exclude_last")
    cl.append("entry_" + case["entry"])
    cl.append("layout_" + case.get("layout", "contiguous"))
    return Info(nontrivial=nt, classes=cl)


@subcheck("C01", "prefix_vs_dp", lambda tier: _dyadic_case(tier), 2500, 60000,
          doc="prefix_edit_distances (function and module) vs the Wagner-Fischer column per prefix, padding past the hypothesis, exclude_last",
          required_classes=["has_padding", "exclude_last", "empty_ref_with_eos", "post_eos_garbage"])
def _prefix_vs_dp(case):
    return _prefix_check(case, exact=True)


@subcheck("C01", "prefix_nondyadic", lambda tier: _nondyadic_case(tier), 500, 10000,
          doc="prefix_edit_distances with non-dyadic costs, rel tol 2e-5")
def _prefix_nondyadic(case):
    return _prefix_check(case, exact=False)


# ------------------------------------------------------------ metamorphic: independence


@st.composite
def _meta_case(draw, tier):
    c = _config(draw, st.one_of(G.dyadic_costs(), G.nondyadic_costs()), tier, eos_required=False)
    b = c["b"]
    # replacement filler for everything after the first eos of each row
    c["refill"] = draw(st.lists(st.integers(-3, b["A"] + 2), min_size=8, max_size=8))
    c["which"] = draw(st.sampled_from(["distance", "prefix"]))
    return c


@subcheck("C01", "independence", lambda tier: _meta_case(tier), 1500, 30000,
          doc="metamorphic, real code only: each pair alone (trimmed to its own length) == inside the batch; rewriting everything after the first eos changes nothing",
          required_classes=["post_eos_rewritten", "solo_differs_in_width"])
def _independence(case):
    import torch

    b = case["b"]
    eos = b["eos"]
    N = b["N"]
    bf = case["batch_first"]
    ref, hyp = G.to_tensors(b, bf)
    call = _call_edit_distance if case["which"] == "distance" else _call_prefix
    full = call(case, ref, hyp, case["entry"])
    if case["which"] == "prefix" and not bf:
        full = full.t()
    full = full.tolist()
    rl, hl = G.lens_of(b, True)  # physical length including the eos itself
    cl = []
    for n in range(N):
        # (a) solo, trimmed to own physical length (keeps the eos if present)
        if eos is None:
            r_row, h_row = b["refs"][n], b["hyps"][n]
        else:
            r_row, h_row = b["refs"][n][: rl[n]], b["hyps"][n][: hl[n]]
        if len(r_row) == 0 or len(h_row) == 0:
            continue  # zero-size dimensions are the subject of sub-check zero_dim
        if len(r_row) != b["R"] or len(h_row) != b["H"]:
            cl.append("solo_differs_in_width")
        rt = torch.tensor([r_row], dtype=torch.long)
        ht = torch.tensor([h_row], dtype=torch.long)
        if not bf:
            rt, ht = rt.t().contiguous(), ht.t().contiguous()
        solo = call(case, rt, ht, case["entry"])
        if case["which"] == "prefix":
            if not bf:
                solo = solo.t()
            solo = solo[0].tolist()
            inb = full[n][: len(solo)]
            rest = full[n][len(solo):]
            require(all(close(a, c_, rel=1e-6, abs_=1e-7) for a, c_ in zip(inb, solo)),
                    "pair %d: prefix distances differ between batch and solo call" % n, inb, solo)
            require(all(x == float(case["padding"]) for x in rest), "pair %d: beyond solo width not padding" % n, rest,
                    case["padding"])
        else:
            require(close(full[n], solo.tolist()[0], rel=1e-6, abs_=1e-7), "pair %d: distance differs between batch and solo call" % n,
                    full[n], solo.tolist()[0])
    # (b) rewrite post-eos filler
    if eos is not None:
        fill = case["refill"]
        changed = False
        new = {"refs": [], "hyps": []}
        for key in ("refs", "hyps"):
            for rowv in b[key]:
                rowv = list(rowv)
                if eos in rowv:
                    p = rowv.index(eos)
                    for i in range(p + 1, len(rowv)):
                        v = fill[i % len(fill)]
                        if rowv[i] != v:
                            changed = True
                        rowv[i] = v
                new[key].append(rowv)
        if changed:
            cl.append("post_eos_rewritten")
            b2 = dict(b, refs=new["refs"], hyps=new["hyps"])
            ref2, hyp2 = G.to_tensors(b2, bf)
            alt = call(case, ref2, hyp2, case["entry"])
            if case["which"] == "prefix" and not bf:
                alt = alt.t()
            alt = alt.tolist()
            require(alt == full, "result changed when tokens after the first eos were rewritten", alt, full)
    return Info(nontrivial=bool(cl), classes=sorted(set(cl)) + ["which_" + case["which"]])


# ------------------------------------------------------------ tiny brute force (guards the DP oracle itself)


@st.composite
def _tiny_case(draw, tier):
    A = draw(st.integers(1, 3))
    ref = draw(st.lists(st.integers(0, A - 1), min_size=0, max_size=5))
    hyp = draw(st.lists(st.integers(0, A - 1), min_size=0, max_size=5))
    return {"ref": ref, "hyp": hyp, "costs": draw(G.dyadic_costs()), "batch_first": draw(st.booleans())}


@subcheck("C01", "tiny_bruteforce", lambda tier: _tiny_case(tier), 600, 10000,
          doc="single pairs (len<=5, no eos) vs an exponential recursion written from the definition (independent of the DP oracle)")
def _tiny(case):
    import torch

    F, _ = _lib()
    ref, hyp = case["ref"], case["hyp"]
    if len(ref) == 0 or len(hyp) == 0:
        # zero-size dimension without eos is accepted by the library
        pass
    rt = torch.tensor([ref], dtype=torch.long).reshape(1, len(ref))
    ht = torch.tensor([hyp], dtype=torch.long).reshape(1, len(hyp))
    if not case["batch_first"]:
        rt, ht = rt.t().contiguous(), ht.t().contiguous()
    ins, dele, sub = case["costs"]
    got = F.edit_distance(rt, ht, batch_first=case["batch_first"], ins_cost=ins, del_cost=dele, sub_cost=sub, warn=False)
    exp = O.brute_edit_distance(ref, hyp, ins, dele, sub)
    require(close(got.tolist()[0], exp, rel=1e-6, abs_=1e-7), "edit distance vs definitional recursion", got.tolist()[0], exp)
    require(close(O.wf_table(ref, hyp, ins, dele, sub)[len(ref)][len(hyp)], exp, rel=1e-9, abs_=1e-9),
            "harness self-check: DP oracle vs recursion", None, None, kind="harness")
    cl = [G.cost_class(case["costs"])]
    if len(ref) == 0 or len(hyp) == 0:
        cl.append("zero_size_no_eos")
    return Info(nontrivial=len(ref) != len(hyp) or G.cost_class(case["costs"]) == "costs_unequal", classes=cl)


# ------------------------------------------------------------ zero-size sequence dimension


@st.composite
def _zero_dim_case(draw, tier):
    c = _config(draw, G.dyadic_costs(), tier, allow_zero_dim=True, max_len=4)
    which = draw(st.sampled_from(["R", "H", "both"]))
    b = c["b"]
    if which in ("R", "both"):
        b["R"] = 0
        b["refs"] = [[] for _ in range(b["N"])]
    if which in ("H", "both"):
        b["H"] = 0
        b["hyps"] = [[] for _ in range(b["N"])]
    c["which"] = draw(st.sampled_from(["distance", "prefix"]))
    return c


@subcheck("C01", "zero_dim", lambda tier: _zero_dim_case(tier), 400, 5000,
          doc="sequence dimension of size zero (R=0 and/or H=0), with and without eos: same oracle",
          required_classes=["eos_set", "eos_unset"])
def _zero_dim(case):
    b = case["b"]
    if case["which"] == "distance":
        info = _distance_check(case, exact=True)
    else:
        info = _prefix_check(case, exact=True)
    info.classes.append("eos_set" if b["eos"] is not None else "eos_unset")
    info.nontrivial = True
    return info


# ------------------------------------------------------------ long structured pairs


@st.composite
def _long_case(draw, tier):
    c = {
        "b": draw(G.long_batch(tier)),
        "costs": draw(G.dyadic_costs()),
        "include_eos": draw(st.booleans()),
        "norm": draw(st.booleans()),
        "batch_first": draw(st.booleans()),
        "exclude_last": draw(st.booleans()),
        "padding": -1,
        "entry": "function",
        "which": draw(st.sampled_from(["distance", "distance", "prefix"])),
    }
    return c


@subcheck("C01", "long_pairs", lambda tier: _long_case(tier), 500, 8000,
          doc="references of 10..40 (thorough ..100) tokens and hypotheses derived from them by runs of deletions / insertions / substitutions at generated positions; same DP oracle (reaches position-dependent defects such as blocked sweeps)",
          required_classes=["len_ge_16", "len_ge_32"])
def _long_pairs(case):
    info = _distance_check(case, exact=True) if case["which"] == "distance" else _prefix_check(case, exact=True)
    m = max(len(r) for r in case["b"]["refs"])
    if m >= 16:
        info.classes.append("len_ge_16")
    if m >= 32:
        info.classes.append("len_ge_32")
    info.nontrivial = True
    return info


# ------------------------------------------------------------ wide batches, one reference shared by expansion, module reuse


@st.composite
def _wide_case(draw, tier):
    A = draw(st.integers(1, 3))
    R = draw(st.integers(1, 6))
    H = draw(st.integers(1, 6))
    eos_kind = draw(st.sampled_from(["none", "outside"]))
    eos = None if eos_kind == "none" else A
    N = draw(st.sampled_from([17, 33, 65, 70, 16, 32, 64] + ([129, 257] if tier == "thorough" else [])))
    base = [draw(G.row(H, A, eos)) for _ in range(8)]
    pick = draw(st.lists(st.integers(0, 7), min_size=N, max_size=N))
    ref = draw(G.row(R, A, eos))
    shared = draw(st.booleans())
    refs = [ref] * N if shared else [draw(G.row(R, A, eos)) for _ in range(4)] * (N // 4 + 1)
    return {
        "b": {"N": N, "R": R, "H": H, "A": A, "eos": eos, "eos_kind": eos_kind, "refs": [list(r) for r in refs[:N]],
              "hyps": [list(base[i]) for i in pick]},
        "shared_ref_expanded": shared,
        "costs": draw(G.dyadic_costs()), "include_eos": draw(st.booleans()), "norm": draw(st.booleans()),
        "batch_first": draw(st.booleans()), "exclude_last": draw(st.booleans()), "padding": -1,
        "entry": "module", "which": draw(st.sampled_from(["distance", "prefix"])),
        "warmup": draw(st.booleans()),
    }


@subcheck("C01", "wide_batch", lambda tier: _wide_case(tier), 150, 3000,
          doc="batches of 16..70 (thorough ..257) pairs, optionally one reference row shared by a stride-0 expanded view; the module "
              "object is optionally called on unrelated data first (results must not depend on the object's history)",
          required_classes=["shared_ref_expanded", "module_reused"])
def _wide_batch(case):
    import torch
    import pydrobert.torch.modules as M

    b = case["b"]
    N, R, H = b["N"], b["R"], b["H"]
    bf = case["batch_first"]
    ref, hyp = G.to_tensors(b, bf)
    if case["shared_ref_expanded"]:
        row = torch.tensor(b["refs"][0], dtype=torch.long)
        ref = row.unsqueeze(0).expand(N, R) if bf else row.unsqueeze(1).expand(R, N)
    ins, dele, sub = case["costs"]
    kw = dict(eos=b["eos"], include_eos=case["include_eos"], norm=case["norm"], batch_first=bf, ins_cost=ins, del_cost=dele,
              sub_cost=sub, warn=False)
    if case["which"] == "distance":
        mod = M.EditDistance(**kw)
    else:
        mod = M.PrefixEditDistances(padding=case["padding"], exclude_last=case["exclude_last"], **kw)
    cl = []
    with warnings.catch_warnings():
        warnings.simplefilter("ignore")
        if case["warmup"]:
            other = torch.zeros((3, 2) if bf else (2, 3), dtype=torch.long)
            mod(other, other + 1)
            cl.append("module_reused")
        got = mod(ref, hyp)
    rl, hl = G.lens_of(b, case["include_eos"])
    if case["which"] == "prefix" and not bf:
        got = got.t()
    got = got.tolist()
    for n in range(N):
        r, h = b["refs"][n][: rl[n]], b["hyps"][n][: hl[n]]
        D = O.wf_table(r, h, *case["costs"])
        if case["which"] == "distance":
            exp = _expected_distance(r, h, case["costs"], case["norm"])
            require(_tol_eq(got[n], exp, True), "wide batch: edit distance of pair %d" % n, got[n], exp)
        else:
            nprefix = len(h) + (0 if case["exclude_last"] else 1)
            for k in range(len(got[n])):
                if k < nprefix:
                    exp = D[len(r)][k]
                    if case["norm"]:
                        exp = (0.0 if k == 0 else 1.0) if len(r) == 0 else exp / len(r)
                    require(_tol_eq(got[n][k], exp, True), "wide batch: prefix distance pair %d prefix %d" % (n, k), got[n][k], exp)
                else:
                    require(got[n][k] == float(case["padding"]), "wide batch: padding pair %d index %d" % (n, k), got[n][k], case["padding"])
    if case["shared_ref_expanded"]:
        cl.append("shared_ref_expanded")
    cl.append("N_%d" % N)
    return Info(nontrivial=True, classes=cl)


# ------------------------------------------------------------ short transcripts in wide, eos-padded tensors


@st.composite
def _eos_wide_case(draw, tier):
    return {
        "b": draw(G.eos_padded_wide_batch(tier)),
        "costs": draw(G.dyadic_costs()),
        "include_eos": draw(st.booleans()), "norm": draw(st.booleans()), "batch_first": draw(st.booleans()),
        "exclude_last": draw(st.booleans()), "padding": -1, "entry": "function", "layout": "contiguous",
        "which": draw(st.sampled_from(["distance", "prefix"])),
    }


@subcheck("C01", "eos_padded_wide", lambda tier: _eos_wide_case(tier), 60, 400,
          doc="transcripts of <= 6 tokens in tensors 257..530 (thorough ..2049) wide, padded with copies of eos (hundreds of eos per "
              "row): same DP oracle on the tokens before the first eos")
def _eos_padded_wide(case):
    info = _distance_check(case, exact=True) if case["which"] == "distance" else _prefix_check(case, exact=True)
    info.nontrivial = True
    info.classes.append("width_ge_257")
    return info
