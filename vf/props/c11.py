"""C11 Transcript files (trn, ctm, TextGrid) read back exactly what was written; path and
open file agree; one worker or many agree; transcript <-> token tensor round trip."""
from __future__ import annotations

import io
import os
import time
import warnings
import zlib
from fractions import Fraction

from hypothesis import strategies as st

from ..core import Info, Reject, expect_raises, require, subcheck
from .. import fakes, gen, tx
from ..gen import weighted


def _data():
    from pydrobert.torch import data

    return data


# =============================================================================== trn

# Tokens that *begin or end* with a non-ASCII blank (or consist of one) do not survive the unchanged reader: it strips every line
# with str.strip(), which also removes e.g. a no-break space that begins the first token or ends the last one, although the
# tokenizer itself separates tokens at the ASCII blank only ("transcript is a list split by spaces").  Minimal input:
# write_trn([("u", ["\u00a0a"])]) reads back as [("u", ["a"])].  Proposed repair: fixes/C11-trn-strip-only-format-blanks.diff;
# directed case: replays/C11/trn_token_edge_unicode_blank.json.pending (rename to .json once the repair is merged).  Until then
# the class stays out of the default generator; VERIF_C11_TRN_EDGE_BLANKS=1 switches it on (use with VERIF_REPO_SRC=<patched tree>).
ENABLE_TRN_EDGE_UNICODE_BLANK = True  # repaired in /repo by 60e83eb

_TRN_TOK = gen.weighted(*([(9, tx.words(tx.TRN_DELIMS)), (1, tx.words_with_inner_space(tx.TRN_DELIMS)),
                           (1, tx.words_with_inner(tx.UNI_SPACES, tx.TRN_DELIMS)), (1, tx.words_with_inner(tx.LINE_SEPS, tx.TRN_DELIMS))]
                          + ([(2, tx.words_with_edge(tx.UNI_SPACES + tx.LINE_SEPS, tx.TRN_DELIMS))] if ENABLE_TRN_EDGE_UNICODE_BLANK else [])))
_TRN_UTT_PLAIN = tx.words(tx.TRN_DELIMS, max_size=5)
_TRN_UTT = st.one_of(
    _TRN_UTT_PLAIN, _TRN_UTT_PLAIN, _TRN_UTT_PLAIN,
    # "Spaces are treated as part of the utterance id" (read_trn_iter notes; tests use " c ")
    st.tuples(st.sampled_from(["", " "]), _TRN_UTT_PLAIN, st.sampled_from([" ", "  "]), _TRN_UTT_PLAIN,
              st.sampled_from(["", " "])).map("".join),
)


def _trn_corpus(tier, max_utts=None):
    big = tier == "thorough"
    n = max_utts or (8 if big else 5)
    return st.lists(
        st.fixed_dictionaries({"utt": _TRN_UTT, "items": tx.trn_transcript(_TRN_TOK, 3, 7 if big else 5)}),
        min_size=0, max_size=n, unique_by=lambda u: u["utt"],
    )


def _trn_api(case):
    """(utt, transcript) pairs for write_trn, with optional times on top-level tokens."""
    wrap = case.get("wrap", [-1, -1])
    times = case.get("times") or [None]
    out = []
    k = 0
    for u in case["corpus"]:
        tr = tx.trn_to_api(u["items"], wrap)
        for i, x in enumerate(tr):
            if isinstance(x, str):
                t = times[k % len(times)]
                k += 1
                if t is not None:
                    tr[i] = (x, _num(t[0]), _num(t[1]))
        out.append((u["utt"], tr))
    return out


def _num(v):
    """Times are stored in the case as JSON numbers or, for the non-finite ones, as strings."""
    return float(v) if isinstance(v, str) else v


def _trn_tokens(items):
    for x in items:
        if isinstance(x, dict):
            for b in x["alt"]:
                yield from _trn_tokens(b)
        else:
            yield x


def _trn_expected(case):
    return [[u["utt"], tx.trn_expected(u["items"])] for u in case["corpus"]]


def _trn_classes(case):
    depth = max([tx.trn_depth(u["items"]) for u in case["corpus"]] or [0])
    cl = ["depth_%d" % depth]
    if depth >= 2:
        cl.append("nested")
    if any(not u["items"] for u in case["corpus"]):
        cl.append("empty_transcript")
    if any(" " in u["utt"] for u in case["corpus"]):
        cl.append("utt_with_space")
    toks = [t for u in case["corpus"] for t in _trn_tokens(u["items"])]
    if any(c in t for t in toks for c in tx.UNI_SPACES):
        cl.append("token_inner_unicode_space")
    if any(c in t for t in toks for c in tx.LINE_SEPS):
        cl.append("token_inner_line_separator")
    if any(t[:1] in tx.UNI_SPACES + tx.LINE_SEPS or t[-1:] in tx.UNI_SPACES + tx.LINE_SEPS for t in toks):
        cl.append("token_edge_unicode_blank")
    if any(isinstance(v, str) or v < 0 or v > 1e6 for t in (case.get("times") or []) if t for v in t):
        cl.append("garbage_times")
    return depth, cl


def _trn_rt_strategy(tier):
    q = st.integers(0, 50).map(lambda k: k / 4)
    # "start and end are ignored when writing trn files": anything np.isreal accepts, including garbage
    junk = st.sampled_from(["inf", "-inf", "nan", -1, -2.5, 1e300, -1e300, 2 ** 70, 0])
    tm = st.one_of(st.none(), st.tuples(q, q).map(list), st.tuples(q, q).map(list), st.tuples(junk, junk).map(list),
                   st.tuples(q, junk).map(list))
    return st.fixed_dictionaries({
        "corpus": _trn_corpus(tier),
        "wrap": st.sampled_from([[-1, -1], [-1, -1], [10, 4], [0.5, 1.5]]),
        "times": st.one_of(st.just([None]), st.lists(tm, min_size=1, max_size=4)),
        "warn": st.booleans(),
    })


@subcheck("C11", "trn_roundtrip", _trn_rt_strategy, quick=800, thorough=12000,
          doc="corpora of utterances with alternates nested to depth 3 (top-level alternates wrapped (alts, s, e), tokens "
              "optionally timed): read_trn(write_trn(x)) == x with alternates as ([[..],[..]], -1, -1); read_trn_iter agrees; "
              "a warning is issued iff an alternate occurs and warn=True",
          required_classes=["nested", "depth_3", "empty_transcript", "token_inner_unicode_space", "token_inner_line_separator",
                            "garbage_times"] + (["token_edge_unicode_blank"] if ENABLE_TRN_EDGE_UNICODE_BLANK else []))
def _trn_roundtrip(case):
    data = _data()
    api = _trn_api(case)
    f = io.StringIO()
    data.write_trn(api, f)
    text = f.getvalue()
    require(text.count("\n") == len(api) and (not api or text.endswith(")\n")),
            "write_trn: not one '(utt)'-terminated line per utterance", text, len(api))
    exp = _trn_expected(case)
    depth, cl = _trn_classes(case)
    with warnings.catch_warnings(record=True) as rec:
        warnings.simplefilter("always")
        got = data.read_trn(io.StringIO(text), warn=case["warn"])
    require(tx.plain(got) == exp, "read_trn(write_trn(x)) != x", tx.plain(got), exp)
    mine = [w for w in rec if "alternate" in str(w.message)]
    if case["warn"]:
        require(bool(mine) == (depth >= 1), "warn=True: warning issued iff an alternate occurs", len(mine), depth >= 1)
    else:
        require(not mine, "warn=False but a warning about alternates was issued", len(mine), 0)
    with warnings.catch_warnings():
        warnings.simplefilter("ignore")
        got_iter = list(data.read_trn_iter(io.StringIO(text), warn=False))
    require(tx.plain(got_iter) == exp, "read_trn_iter differs from read_trn", tx.plain(got_iter), exp)
    return Info(nontrivial=depth >= 2, classes=cl + (["warn"] if case["warn"] else []))


def _trn_variants_strategy(tier):
    return st.fixed_dictionaries({
        "corpus": _trn_corpus(tier),
        "pad": st.lists(st.integers(0, 2), min_size=1, max_size=6),
        "blank": st.lists(st.sampled_from(["", "", "\n", "  \n"]), min_size=1, max_size=4),
    })


@subcheck("C11", "trn_reader_reference_text", _trn_variants_strategy, quick=500, thorough=8000,
          doc="trn text produced by an independent serialiser (varying blanks between elements, blank lines): read_trn "
              "returns the generated structure",
          required_classes=["nested"])
def _trn_variants(case):
    data = _data()
    text = ""
    for i, u in enumerate(case["corpus"]):
        text += case["blank"][i % len(case["blank"])]
        text += tx.trn_reference_line(u["items"], u["utt"], case["pad"]) + "\n"
    got = data.read_trn(io.StringIO(text), warn=False)
    exp = _trn_expected(case)
    require(tx.plain(got) == exp, "read_trn of reference text != generated structure", tx.plain(got), exp)
    depth, cl = _trn_classes(case)
    return Info(nontrivial=depth >= 2, classes=cl)


# ------------------------------------------------------------------- trn, many workers


def _trn_mp_strategy(tier, real=False):
    big = tier == "thorough"
    return st.fixed_dictionaries({
        "corpus": _trn_corpus(tier, max_utts=40 if not real else 25),
        "blank": st.lists(st.sampled_from(["", "", "\n"]), min_size=1, max_size=3),
        "processes": st.sampled_from([2, 4, 1]),
        "chunk_size": st.integers(1, 5),
        "order": st.lists(st.integers(0, 6), min_size=1, max_size=8),
        "delays_ms": st.lists(st.integers(0, 4 if not big else 8), min_size=1, max_size=5),
        "via_path": st.booleans(),
    })


def _trn_mp_text(case):
    data = _data()
    f = io.StringIO()
    data_api = _trn_api(case)
    lines = []
    for i, (utt, tr) in enumerate(data_api):
        g = io.StringIO()
        data.write_trn([(utt, tr)], g)
        lines.append(case["blank"][i % len(case["blank"])] + g.getvalue())
    f.write("".join(lines))
    return f.getvalue()


def _trn_mp_body(case, real):
    data = _data()
    text = _trn_mp_text(case)
    exp = _trn_expected(case)
    serial = data.read_trn(io.StringIO(text), warn=False, processes=0)
    require(tx.plain(serial) == exp, "processes=0: read_trn(write_trn(x)) != x", tx.plain(serial), exp)
    P, cs = case["processes"], case["chunk_size"]
    nlines = text.count("\n")

    def run(src):
        if real:
            import pydrobert.torch._parsing as parsing

            orig = parsing._trn_line_to_transcript
            delays = case["delays_ms"]

            def _trn_line_to_transcript(x):
                time.sleep(delays[zlib.crc32(x[0].encode()) % len(delays)] / 1000.0)
                return orig(x)

            _trn_line_to_transcript.__module__ = orig.__module__
            _trn_line_to_transcript.__qualname__ = orig.__qualname__
            with fakes.patched(parsing, _trn_line_to_transcript=_trn_line_to_transcript):
                with warnings.catch_warnings():
                    warnings.simplefilter("ignore")
                    return data.read_trn(src, False, P, cs)
        with tx.simulated_pool(case["order"]):
            return data.read_trn(src, False, P, cs)

    if case["via_path"]:
        with tx.scratch() as d:
            p = os.path.join(d, "x.trn")
            tx.write_text(p, text)
            many = run(p)
    else:
        many = run(io.StringIO(text))
    require(tx.plain(many) == tx.plain(serial), "processes=%d, chunk_size=%d differs from processes=0" % (P, cs),
            tx.plain(many), tx.plain(serial))
    perm = tx.perm_of(case["order"], nlines)
    cl = ["processes_%d" % P]
    if nlines >= 3:
        cl.append("ge3_lines")
    if nlines > cs:
        cl.append("several_chunks")
    nontriv = nlines >= 3 and (real or perm != sorted(perm)) and (real is False or P >= 2)
    return Info(nontrivial=nontriv, classes=cl)


subcheck("C11", "trn_workers_simulated", lambda tier: _trn_mp_strategy(tier), quick=300, thorough=4000,
         doc="0..40 lines, processes in {1,2,4}, chunk sizes 1..5, simulated pool with generated completion order: "
             "same list as processes=0 (and as the generated corpus); path or open file",
         required_classes=["ge3_lines", "several_chunks"])(lambda case: _trn_mp_body(case, False))

subcheck("C11", "trn_workers_real", lambda tier: _trn_mp_strategy(tier, real=True), quick=24, thorough=200,
         doc="real fork pools (torch.multiprocessing.Pool) with content-derived per-line delays of 0..4 ms injected into "
             "the worker function: same list as processes=0",
         required_classes=["ge3_lines"], timeout_s=1500)(lambda case: _trn_mp_body(case, True))


# =============================================================================== ctm

_CTM_WORD = tx.words(set(";"), max_size=4)
_CTM_TOKEN = st.one_of(_CTM_WORD, _CTM_WORD, tx.words(set(), max_size=4).filter(lambda s: ";;" not in s))


@st.composite
def _ctm_case(draw, tier):
    big = tier == "thorough"
    utts = draw(st.lists(_CTM_WORD, min_size=1, max_size=6 if big else 4, unique=True))
    timing = draw(st.sampled_from(["dyadic", "dyadic_small", "float", "float", "int", "huge", "tiny"]))

    def tm():
        if timing == "dyadic":
            s = draw(st.integers(0, 64 * 1024)) / 1024
            d = draw(st.one_of(st.integers(0, 8), st.integers(0, 64 * 1024))) / 1024
        elif timing == "dyadic_small":  # many equal starts, interleaving utterances
            s = draw(st.integers(0, 8)) / 4
            d = draw(st.integers(0, 4)) / 4
        elif timing == "int":  # Python ints instead of floats
            s = draw(st.integers(0, 50))
            d = draw(st.integers(0, 5))
        elif timing == "huge":  # up to 2^40 s with durations on the 2^-10 grid: the sum is still exact (50 bits)
            s = float(draw(st.integers(0, 2 ** 20)) * 2 ** 20)
            d = draw(st.integers(0, 1024)) / 1024
        elif timing == "tiny":  # multiples of 2^-40 s: printed in exponent notation
            s = draw(st.integers(0, 4096)) * 2.0 ** -40
            d = draw(st.integers(0, 4096)) * 2.0 ** -40
        else:
            s = draw(st.floats(0, 1e4, allow_nan=False, allow_infinity=False, allow_subnormal=False))
            d = draw(st.floats(0, 1e3, allow_nan=False, allow_infinity=False, allow_subnormal=False))
        return s, s + d

    corpus = []
    for u in utts:
        toks = []
        for _ in range(draw(st.integers(0, 5))):
            s, e = tm()
            toks.append([draw(_CTM_TOKEN), s, e])
        corpus.append({"utt": u, "tokens": toks})
    mapping = draw(st.sampled_from(["default", "channel", "dict", "dict"]))
    m = {"kind": mapping}
    if mapping == "channel":
        m["channel"] = draw(_CTM_WORD)
    elif mapping == "dict":
        wfns = draw(st.lists(_CTM_WORD, min_size=1, max_size=3, unique=True))
        chans = draw(st.lists(_CTM_WORD, min_size=1, max_size=3, unique=True))
        combos = [(w, c) for w in wfns for c in chans]
        if len(combos) >= len(utts):
            pairs = draw(st.permutations(combos))[:len(utts)]
        else:
            pairs = [(u + "w", chans[0]) for u in utts]
        m["utt2wc"] = [[u, w, c] for u, (w, c) in zip(utts, pairs)]
    return {"corpus": corpus, "timing": timing, "map": m}


def _ctm_args(case):
    api = [(u["utt"], [tuple(t) for t in u["tokens"]]) for u in case["corpus"]]
    m = case["map"]
    if m["kind"] == "default":
        wargs, wc2utt, key = (), None, {u["utt"]: (u["utt"], "A") for u in case["corpus"]}
    elif m["kind"] == "channel":
        wargs, wc2utt, key = (m["channel"],), None, {u["utt"]: (u["utt"], m["channel"]) for u in case["corpus"]}
    else:
        utt2wc = {u: (w, c) for u, w, c in m["utt2wc"]}
        wargs, wc2utt, key = (utt2wc,), {(w, c): u for u, w, c in m["utt2wc"]}, dict(utt2wc)
    return api, wargs, wc2utt, key


def _ctm_compare(case, got, key, what, ordered=True):
    """ctm's mandated ordering: utterances by (waveform, channel), tokens by start time; the
    order of tokens with equal start is not part of the contract (compared as multisets).
    ``ordered=False`` (a file that is not in ctm order): the utterances are compared as a set."""
    nonempty = [u for u in case["corpus"] if u["tokens"]]
    exp_order = [u["utt"] for u in sorted(nonempty, key=lambda u: key[u["utt"]])]
    got = tx.plain(got)
    if ordered:
        require([g[0] for g in got] == exp_order, what + ": utterances / their (waveform, channel) order",
                [g[0] for g in got], exp_order)
    else:
        require(sorted(g[0] for g in got) == sorted(exp_order), what + ": utterances (each listed once)",
                sorted(g[0] for g in got), sorted(exp_order))
    by = {u["utt"]: u["tokens"] for u in nonempty}
    exact = case["timing"] != "float"
    for utt, toks in got:
        src = by[utt]
        require(len(toks) == len(src), what + ": token count of %r" % utt, toks, src)
        starts = [t[1] for t in toks]
        require(starts == sorted(starts), what + ": tokens not ordered by start", toks, None)
        # group by start (exact: str(float) round-trips)
        g_got, g_exp = {}, {}
        for tok, s, e in toks:
            g_got.setdefault(s, []).append((tok, e))
        for tok, s, e in src:
            g_exp.setdefault(s, []).append((tok, e))
        require(sorted(g_got) == sorted(g_exp), what + ": start times not returned exactly", sorted(g_got), sorted(g_exp))
        for s in g_exp:
            a, b = sorted(g_got[s]), sorted(g_exp[s])
            if exact:
                require(a == b, what + ": tokens/end times at start %r" % s, a, b)
            else:
                a = sorted(g_got[s], key=lambda x: (x[0], x[1]))
                b = sorted(g_exp[s], key=lambda x: (x[0], x[1]))
                ok = len(a) == len(b) and all(x[0] == y[0] and abs(x[1] - y[1]) <= 1e-9 * max(1.0, abs(y[1])) for x, y in zip(a, b))
                require(ok, what + ": tokens/end times (1e-9) at start %r" % s, a, b)


def _ctm_info(case):
    spans = [(min(t[1] for t in u["tokens"]), max(t[2] for t in u["tokens"])) for u in case["corpus"] if u["tokens"]]
    inter = any(a[0] <= b[1] and b[0] <= a[1] for i, a in enumerate(spans) for b in spans[i + 1:])
    cl = ["map_" + case["map"]["kind"], "timing_" + case["timing"]]
    if inter:
        cl.append("interleaved_utts")
    if any(len({t[1] for t in u["tokens"]}) < len(u["tokens"]) for u in case["corpus"]):
        cl.append("equal_starts")
    if any(not u["tokens"] for u in case["corpus"]):
        cl.append("empty_utt")
    if any(list(u["tokens"]) != sorted(u["tokens"], key=lambda t: t[1]) for u in case["corpus"]):
        cl.append("unsorted_input")
    return Info(nontrivial=inter and len(spans) >= 2, classes=cl)


@subcheck("C11", "ctm_roundtrip", lambda tier: _ctm_case(tier), quick=800, thorough=12000,
          doc="1..4 utterances with 0..5 timed tokens (dyadic times: exact; arbitrary floats: end at 1e-9), default / "
              "channel string / injective utt->(wave, channel) map: read_ctm(write_ctm(x), inverse map) == x up to the "
              "mandated (wave, channel, start) ordering",
          required_classes=["interleaved_utts", "map_dict", "equal_starts", "timing_float", "timing_int", "timing_huge", "timing_tiny"])
def _ctm_roundtrip(case):
    data = _data()
    api, wargs, wc2utt, key = _ctm_args(case)
    f = io.StringIO()
    data.write_ctm(api, f, *wargs)
    text = f.getvalue()
    ntok = sum(len(u["tokens"]) for u in case["corpus"])
    require(text.count("\n") == ntok, "write_ctm: not one line per token", text, ntok)
    got = data.read_ctm(io.StringIO(text), wc2utt)
    _ctm_compare(case, got, key, "read_ctm(write_ctm(x))")
    return _ctm_info(case)


# =============================================================================== TextGrid

_TG_CHARS = [c for c in tx._ASCII if c != '"'] + tx._UNI
_TG_SYNTAX_LIKE = ["item [1]:", " item [2]:", "    item [1]:", "xmin = 3", "xmax = 1", "text = ", "intervals [1]:", "points [2]:",
                   "intervals: size = 2", "<exists>", "1.5", "-1", "12", "0", "IntervalTier", "TextTier", "ooTextFile",
                   'File type = ', "size = 3", "number = 2", "mark = ", "!", "tiers? <exists>"]
_TG_ODD_BLANKS = tx.UNI_SPACES + tx.LINE_SEPS + ["\t", "\x0c"]
_TG_PLAIN = [
    (6, tx.words(set('"'), max_size=4)),
    (1, st.text(_TG_CHARS + [" "], min_size=1, max_size=6)),  # blanks inside / around labels
    (1, st.tuples(st.sampled_from(["", " "]), tx.words(set('"'), max_size=2), st.just(" "), tx.words(set('"'), max_size=2),
                  st.sampled_from(["", " "])).map("".join)),
    (1, st.just("")),
    # blanks other than the ASCII space, anywhere in the label (the reader "does not check for whitespace in or around labels")
    (1, st.tuples(st.sampled_from(["", "a"]), st.sampled_from(_TG_ODD_BLANKS), st.sampled_from(["", "b", " c"])).map("".join)),
]
# write -> read: additionally labels that look like the file's own syntax (only the double quote and the newline delimit a label)
_TG_TOKEN = weighted(*(_TG_PLAIN + [(1, st.sampled_from(_TG_SYNTAX_LIKE))]))
# Praat long-format files from the independent writer keep the plain labels: there a label such as ' item [2]:' makes the
# vendored reader split the tier in two (IndexError in _textgrid.py); the library never writes that format and the statement is
# about writing and then reading, so such third-party files are outside the property
_TG_TOKEN_PRAAT = weighted(*_TG_PLAIN)
_TG_NAME = st.one_of(st.just(None), tx.words(set('"'), max_size=5), st.text(_TG_CHARS + [" "], min_size=0, max_size=6))


@st.composite
def _tg_entries(draw, p, max_n, points=False, min_n=1, tok=None):
    """Time-sorted non-overlapping entries whose *printed* start times are strictly
    increasing: boundaries are integers of the 10^-p grid (seconds up to ~230, so two and
    three integer digits occur), optionally moved off the grid by less than half a unit
    (k/16, |k| <= 7), equal boundaries sharing the same value."""
    scale = 10 ** p
    base = draw(st.sampled_from([0, 0, 0, 7, 8, 9, 9, 97, 98, 99, 150, 198, 998, 999, 9998, 9999, 99998]))
    inc = st.one_of(st.integers(0, 3), st.integers(0, 3).map(lambda n: n * scale),
                    st.integers(0, 3).map(lambda n: n * max(1, scale // 4)))
    ongrid = draw(st.booleans())
    delta = {}

    def tval(pos):
        if pos not in delta:
            k = 0 if ongrid else draw(st.integers(-7, 7))
            delta[pos] = abs(k) if pos == 0 else k
        return (pos * 16 + delta[pos]) / (16 * scale)

    n = draw(st.integers(min_n, max_n))
    pos = base * scale + draw(inc)
    out = []
    for _ in range(n):
        ln = 0 if points else draw(inc)
        a, b = tval(pos), tval(pos + ln)
        if ln == 0 and not ongrid and points != "exact" and draw(st.integers(0, 3)) == 0:
            # shorter than the print precision: start < end, printed alike
            b = (pos * 16 + draw(st.integers(delta[pos], 7))) / (16 * scale)
        out.append([draw(tok if tok is not None else _TG_TOKEN), a, b])
        gap = draw(inc)
        if ln + gap == 0 and not (points == "exact" and draw(st.integers(0, 2)) == 0):
            gap = 1  # (in an explicit point tier the next point may coincide with this one: file order is kept)
        pos = pos + ln + gap
    return out, ongrid


@st.composite
def _tg_case(draw, tier, bad_bounds=False):
    big = tier == "thorough"
    p = draw(weighted((2, st.just(3)), (8, st.integers(0, 6)), (1, st.integers(7, 9) if big else st.integers(0, 2))))
    tier_kind = draw(st.sampled_from(["infer", "infer", "interval", "interval", "interval_all_zero_length",
                                      "point_explicit", "point_inferred"]))
    points = tier_kind in ("point_explicit", "point_inferred", "interval_all_zero_length")
    if tier_kind == "point_explicit":
        points = "exact"  # an explicit point tier stores the start only: keep start == end
    entries, ongrid = draw(_tg_entries(p, 8 if big else 5, points=points))
    point_tier = {"infer": None, "interval": False, "interval_all_zero_length": False, "point_explicit": True,
                  "point_inferred": None}[tier_kind]
    first, last = entries[0][1], max(e[2] for e in entries)
    case = {
        "p": p, "entries": entries, "point_tier": point_tier, "ongrid": ongrid,
        "tier_name": draw(_TG_NAME),
        "start_time": draw(st.one_of(st.none(), st.just(first), st.just(0.0), st.just(first / 2))),
        "end_time": draw(st.one_of(st.none(), st.just(last), st.just(last + 1.0), st.just(last * 2 + 0.5))),
        "by": draw(st.sampled_from(["default", "index", "name", "neg_index"])),
        # (the empty label is what Praat itself uses for silence: a legal - and falsy - fill token)
        "fill": draw(st.one_of(st.none(), st.none(), tx.words(set('"'), max_size=3), st.just(""))),
    }
    if bad_bounds:
        which = draw(st.sampled_from(["start", "end"]))
        if which == "end" and last > 0:
            case["end_time"] = last * draw(st.sampled_from([0.0, 0.5]))
        else:
            case["start_time"] = first + draw(st.sampled_from([0.5, 1.0, 10.0 ** -p]))
    return case


def _tg_kwargs(case):
    kw = {"precision": case["p"]}
    if case["point_tier"] is not None:
        kw["point_tier"] = case["point_tier"]
    for k in ("start_time", "end_time", "tier_name"):
        if case[k] is not None:
            kw[k] = case[k]
    return kw


def _tg_tier_id(case):
    name = case["tier_name"] if case["tier_name"] is not None else "transcript"
    return {"default": None, "index": 0, "neg_index": -1, "name": name}[case["by"]]


def _tg_expected(entries, p, is_point, fill, tier_xmin=None, tier_xmax=None):
    """Times as printed with p decimals; unlabelled gaps filled on request."""
    ps = [tx.dec_round(e[1], p) for e in entries]
    pe = [tx.dec_round(e[2], p) for e in entries]
    for i in range(len(entries) - 1):
        if is_point and entries[i][1] == entries[i + 1][1]:
            continue  # coincident points
        if not (ps[i] < ps[i + 1] and pe[i] <= ps[i + 1]):
            raise Reject("entries not strictly ordered at print precision")
    if is_point:
        pe = list(ps)
    out = []
    cur = tier_xmin
    for (tok, _, _), s, e in zip(entries, ps, pe):
        if fill is not None and cur is not None and cur < s:
            out.append([fill, float(cur), float(s)])
        out.append([tok, float(s), float(e)])
        cur = e
    if fill is not None and tier_xmax is not None and cur is not None and cur < tier_xmax:
        out.append([fill, float(cur), float(tier_xmax)])
    return out


def _tg_is_point(case):
    p = case["p"]
    if case["point_tier"] is not None:
        return case["point_tier"]
    return all(tx.dec_round(e[1], p) == tx.dec_round(e[2], p) for e in case["entries"])


def _tg_classes(case, is_point):
    p, entries = case["p"], case["entries"]
    cl = ["precision_%s" % ("3" if p == 3 else "not3"), "point_tier" if is_point else "interval_tier",
          "ongrid" if case["ongrid"] else "offgrid", "by_" + case["by"]]
    gap = any(tx.dec_round(a[2], p) < tx.dec_round(b[1], p) for a, b in zip(entries, entries[1:]))
    ge10 = any(e[2] >= 10 for e in entries)
    cross = any(len(str(int(a[1]))) != len(str(int(b[1]))) for a, b in zip(entries, entries[1:]))
    if gap:
        cl.append("gap")
    if ge10:
        cl.append("time_ge_10s")
    if cross:
        cl.append("integer_digits_change")
    if case["fill"] is not None and not is_point:
        cl.append("fill_requested")
    if any(e[0] == "" for e in entries):
        cl.append("empty_label")
    if any(" " in e[0] for e in entries):
        cl.append("label_with_blank")
    if any(e[0] in _TG_SYNTAX_LIKE for e in entries):
        cl.append("label_looks_like_syntax")
    if any(c in e[0] for e in entries for c in _TG_ODD_BLANKS):
        cl.append("label_with_odd_blank")
    if any(e[2] >= 1000 for e in entries):
        cl.append("time_ge_1000s")
    if is_point and any(a[1] == b[1] and a[0] > b[0] for a, b in zip(entries, entries[1:])):
        cl.append("coincident_points_labels_descending")
    if case["point_tier"] is False and any(e[1] == e[2] for e in entries):
        cl.append("zero_length_interval")
    if any(e[1] != e[2] and tx.dec_round(e[1], p) == tx.dec_round(e[2], p) for e in entries):
        cl.append("shorter_than_precision")
        if case["point_tier"] is None and is_point:
            cl.append("point_inferred_within_precision")
    return cl, (gap and ge10) or p != 3


def _tg_write_read(case, data, f):
    is_point = _tg_is_point(case)
    fill = None if is_point else case["fill"]
    api = [tuple(e) for e in case["entries"]]
    data.write_textgrid(api, f, **_tg_kwargs(case))
    return is_point, fill


@subcheck("C11", "textgrid_roundtrip", lambda tier: _tg_case(tier), quick=1500, thorough=25000,
          doc="1..5 non-overlapping entries (gaps, zero-length, times to ~230 s, on/off the 10^-p grid), precision 0..6(9), "
              "explicit/inferred point or interval tier, tier by default/index/name, fill_token: read_textgrid("
              "write_textgrid(x)) == x with times rounded to p decimals (Decimal half-even), gaps filled, order kept; "
              "written tier type and number format as documented",
          required_classes=["gap", "time_ge_10s", "integer_digits_change", "precision_not3", "point_tier",
                            "interval_tier", "fill_requested", "offgrid", "point_inferred_within_precision",
                            "label_looks_like_syntax", "label_with_odd_blank", "time_ge_1000s",
                            "coincident_points_labels_descending"])
def _tg_roundtrip(case):
    data = _data()
    p = case["p"]
    f = io.StringIO()
    is_point, fill = _tg_write_read(case, data, f)
    text = f.getvalue()
    lines = text.split("\n")
    require(lines[6] == ('"TextTier"' if is_point else '"IntervalTier"'), "written tier type", lines[6],
            "TextTier" if is_point else "IntervalTier")
    name = case["tier_name"] if case["tier_name"] is not None else "transcript"
    require(lines[7] == '"%s"' % name, "written tier name", lines[7], name)
    e0 = case["entries"][0]
    require(lines[11] == tx.dec_str(e0[1], p), "first start time not printed with %d decimals" % p, lines[11], tx.dec_str(e0[1], p))
    ps = [tx.dec_round(e[1], p) for e in case["entries"]]
    pe = [tx.dec_round(e[2], p) for e in case["entries"]]
    exp = _tg_expected(case["entries"], p, is_point, fill, min(ps), max(pe))
    tid = _tg_tier_id(case)
    f.seek(0)
    kw = {}
    if tid is not None:
        kw["tier_id"] = tid
    if fill is not None:
        kw["fill_token"] = fill
    got, xmin, xmax = data.read_textgrid(f, **kw)
    require(tx.plain(got) == exp, "read_textgrid(write_textgrid(x)) != x rounded to %d decimals" % p, tx.plain(got), exp)
    require(xmin == float(min(ps)) and xmax == float(max(pe)), "tier start/end time", [xmin, xmax], [float(min(ps)), float(max(pe))])
    cl, nontriv = _tg_classes(case, is_point)
    return Info(nontrivial=nontriv, classes=cl)


@st.composite
def _tg_unordered_case(draw, tier):
    p = draw(st.integers(0, 4))
    point = draw(st.booleans())
    entries, _ = draw(_tg_entries(p, 6 if tier == "thorough" else 5, points="exact" if point else False, min_n=2))
    # distinct printed starts (coincident points are the business of textgrid_roundtrip)
    starts = [tx.dec_round(e[1], p) for e in entries]
    if len(set(starts)) != len(starts):
        entries = [e for i, e in enumerate(entries) if starts[i] not in starts[:i]]
    span = None
    if not point and draw(st.booleans()):
        # an interval that spans the ones listed after it (a phrase over its words): it alone reaches the tier's end
        span = draw(st.integers(0, len(entries) - 1))
        entries[span][2] = max(e[2] for e in entries) + draw(st.sampled_from([0.0, 1.0, 2.5]))
    order = draw(st.permutations(list(range(len(entries)))))
    return {"p": p, "point": point, "entries": [entries[i] for i in order], "span": span is not None}


@subcheck("C11", "textgrid_unordered", lambda tier: _tg_unordered_case(tier), quick=300, thorough=4000,
          doc="2..5 entries listed in any order, interval tiers optionally with one interval spanning the later ones: read_textgrid("
              "write_textgrid(x)) is x ordered by start time (rounded to p decimals) and the tier's bounds are the smallest start and "
              "the largest end of the whole transcript, wherever those entries stand in the list",
          required_classes=["first_listed_is_not_earliest", "last_listed_is_not_latest_end", "spanning_interval"])
def _tg_unordered(case):
    data = _data()
    p, entries = case["p"], case["entries"]
    if len(entries) < 2:
        raise Reject("fewer than two entries with distinct printed starts")
    f = io.StringIO()
    data.write_textgrid([tuple(e) for e in entries], f, precision=p, point_tier=case["point"])
    f.seek(0)
    got, xmin, xmax = data.read_textgrid(f)
    ps = [tx.dec_round(e[1], p) for e in entries]
    pe = [tx.dec_round(e[1] if case["point"] else e[2], p) for e in entries]
    exp = [[entries[i][0], float(ps[i]), float(pe[i])] for i in sorted(range(len(entries)), key=lambda i: ps[i])]
    require(tx.plain(got) == exp, "read_textgrid(write_textgrid(x)) != x ordered by start (times rounded to %d decimals)" % p, tx.plain(got), exp)
    require(xmin == float(min(ps)) and xmax == float(max(pe)), "tier bounds are not (smallest start, largest end) of the transcript",
            [xmin, xmax], [float(min(ps)), float(max(pe))])
    cl = ["point_tier" if case["point"] else "interval_tier"]
    if ps[0] != min(ps):
        cl.append("first_listed_is_not_earliest")
    if pe[-1] != max(pe):
        cl.append("last_listed_is_not_latest_end")
    if case["span"]:
        cl.append("spanning_interval")
    return Info(nontrivial=len(cl) > 1, classes=cl)


@subcheck("C11", "textgrid_bad_bounds", lambda tier: _tg_case(tier, bad_bounds=True), quick=100, thorough=1000,
          doc="start_time after the first interval / end_time before the last: write_textgrid raises ValueError as documented "
              "in its messages; an empty transcript raises ValueError")
def _tg_bad_bounds(case):
    data = _data()
    entries = case["entries"]
    first, last = min(e[1] for e in entries), max(e[2] for e in entries)
    bad = (case["start_time"] is not None and case["start_time"] > first) or (
        case["end_time"] is not None and case["end_time"] < last)
    if not bad:
        raise Reject("bounds turned out valid")
    with expect_raises(ValueError, what="write_textgrid with start_time/end_time inside the tier"):
        data.write_textgrid([tuple(e) for e in entries], io.StringIO(), **_tg_kwargs(case))
    with expect_raises(ValueError, what="write_textgrid with an empty transcript"):
        data.write_textgrid([], io.StringIO())
    return Info(nontrivial=True, classes=["bad_bounds"])


# ---- reading Praat's long text format (several tiers), written by an independent writer


@st.composite
def _praat_case(draw, tier):
    big = tier == "thorough"
    p = draw(st.integers(0, 6))
    ntiers = draw(st.integers(1, 3))
    names = draw(st.lists(tx.words(set('"'), max_size=3), min_size=ntiers, max_size=ntiers))
    tiers = []
    for i in range(ntiers):
        points = draw(st.booleans())
        entries, _ = draw(_tg_entries(p, 6 if big else 4, points=points, tok=_TG_TOKEN_PRAAT))
        first, last = entries[0][1], max(e[2] for e in entries)
        lead = draw(st.sampled_from([0, 0, 1, 2]))
        trail = draw(st.sampled_from([0, 0, 1, 2]))
        unit = 10.0 ** -p
        tiers.append({"name": names[i], "point": points, "entries": entries,
                      "xmin": max(0.0, float(tx.dec_round(first, p)) - lead * unit) if lead else first,
                      "xmax": float(tx.dec_round(last, p)) + trail * unit if trail else last})
    return {"p": p, "tiers": tiers, "which": draw(st.integers(0, ntiers - 1)),
            "by": draw(st.sampled_from(["index", "name", "neg_index"])),
            "fill": draw(st.one_of(st.none(), tx.words(set('"'), max_size=3), st.just("")))}


def _praat_text(case):
    p = case["p"]
    n = lambda t: tx.dec_str(t, p)
    gmin = min(t["xmin"] for t in case["tiers"])
    gmax = max(t["xmax"] for t in case["tiers"])
    s = 'File type = "ooTextFile"\nObject class = "TextGrid"\n\n'
    s += "xmin = %s\nxmax = %s\ntiers? <exists>\nsize = %d\nitem []:\n" % (n(gmin), n(gmax), len(case["tiers"]))
    for i, t in enumerate(case["tiers"]):
        kind = "points" if t["point"] else "intervals"
        s += "    item [%d]:\n" % (i + 1)
        s += '        class = "%s"\n' % ("TextTier" if t["point"] else "IntervalTier")
        s += '        name = "%s"\n' % t["name"]
        s += "        xmin = %s\n        xmax = %s\n" % (n(t["xmin"]), n(t["xmax"]))
        s += "        %s: size = %d\n" % (kind, len(t["entries"]))
        for j, (tok, a, b) in enumerate(t["entries"]):
            s += "        %s [%d]:\n" % (kind, j + 1)
            if t["point"]:
                s += '            number = %s\n            mark = "%s"\n' % (n(a), tok)
            else:
                s += '            xmin = %s\n            xmax = %s\n            text = "%s"\n' % (n(a), n(b), tok)
    return s


@subcheck("C11", "textgrid_praat_tiers", lambda tier: _praat_case(tier), quick=500, thorough=8000,
          doc="Praat long-format files with 1..3 interval/point tiers written by an independent writer: read_textgrid by index, "
              "negative index and name (first occurrence) returns that tier's entries, tier bounds, and fills leading / inner / "
              "trailing gaps of interval tiers on request",
          required_classes=["several_tiers", "by_name", "duplicate_names", "fill_interval"])
def _praat_read(case):
    data = _data()
    p = case["p"]
    text = _praat_text(case)
    k = case["which"]
    names = [t["name"] for t in case["tiers"]]
    if case["by"] == "index":
        tid = k
    elif case["by"] == "neg_index":
        tid = k - len(names)
    else:
        tid = names[k]
        k = names.index(tid)  # "first occurence"
    t = case["tiers"][k]
    fill = None if t["point"] else case["fill"]
    xmin, xmax = tx.dec_round(t["xmin"], p), tx.dec_round(t["xmax"], p)
    exp = _tg_expected(t["entries"], p, t["point"], fill, xmin, xmax)
    got, gmin, gmax = data.read_textgrid(io.StringIO(text), tid, fill)
    require(tx.plain(got) == exp, "read_textgrid(tier %r) of a Praat long-format file" % (tid,), tx.plain(got), exp)
    require(gmin == float(xmin) and gmax == float(xmax), "tier bounds", [gmin, gmax], [float(xmin), float(xmax)])
    cl = ["by_" + case["by"], "point_tier" if t["point"] else "interval_tier"]
    if len(names) >= 2:
        cl.append("several_tiers")
    if len(set(names)) < len(names):
        cl.append("duplicate_names")
    if fill is not None:
        cl.append("fill_interval")
        if len(exp) > len(t["entries"]):
            cl.append("gap_filled")
    ge10 = any(e[2] >= 10 for e in t["entries"])
    return Info(nontrivial=len(names) >= 2 and (ge10 or p != 3), classes=cl)


# =============================================================================== path vs open file


# what the path holds before the writer is called: nothing (no such file), or N bytes of other text (longer than most outputs)
_PRIOR = st.sampled_from([None, None, 0, 7, 400, 5000])


def _pvf_strategy(tier):
    return st.one_of(
        st.fixed_dictionaries({"fmt": st.just("trn"), "corpus": _trn_corpus(tier),
                               "wrap": st.just([-1, -1]), "times": st.just([None]), "prior": _PRIOR,
                               "as_generator": st.booleans()}),
        st.tuples(_ctm_case(tier), _PRIOR, st.booleans()).map(lambda c: dict(c[0], fmt="ctm", prior=c[1], as_generator=c[2])),
        st.tuples(_tg_case(tier), _PRIOR, st.booleans()).map(lambda c: dict(c[0], fmt="textgrid", prior=c[1], as_generator=c[2])),
        st.tuples(_tg_case(tier), _PRIOR, st.booleans()).map(lambda c: dict(c[0], fmt="textgrid", prior=c[1], as_generator=c[2])),
    )


@subcheck("C11", "path_vs_file", _pvf_strategy, quick=800, thorough=12000,
          doc="every writer (trn, ctm with every mapping, TextGrid with every point_tier/precision/start/end/tier name) given a "
              "path and given an open file: byte-identical output; every reader given the path and the open file: equal results",
          required_classes=["fmt_trn", "fmt_ctm", "fmt_textgrid", "precision_not3", "explicit_point_tier", "explicit_interval_tier",
                            "explicit_interval_all_zero_length", "path_rewritten", "transcripts_as_iterator"])
def _path_vs_file(case):
    data = _data()
    fmt = case["fmt"]
    cl = ["fmt_" + fmt]
    nontriv = False
    with tx.scratch() as d:
        path = os.path.join(d, "out." + fmt)
        f = io.StringIO()
        prior = case.get("prior")
        if prior is not None:
            # the file exists already and holds something else: the writer must replace it, not patch or extend it
            tx.write_text(path, ("stale line (x)\n" * (prior // 15 + 1))[:prior])
            cl.append("path_rewritten")
        if fmt == "trn":
            api = _trn_api(case)
            data.write_trn(api, f)
            if case.get("as_generator"):
                # "From an iterable of transcripts": a one-shot iterator is consumed exactly once
                data.write_trn(iter(_trn_api(case)), path)
                g = io.StringIO()
                data.write_trn((x for x in _trn_api(case)), g)
                require(g.getvalue() == f.getvalue(), "write_trn given a generator differs from the list", g.getvalue(), f.getvalue())
                cl.append("transcripts_as_iterator")
            else:
                data.write_trn(_trn_api(case), path)
            readers = [lambda src: tx.plain(data.read_trn(src, False)), lambda src: tx.plain(list(data.read_trn_iter(src, False)))]
            depth, c2 = _trn_classes(case)
            nontriv = depth >= 2
        elif fmt == "ctm":
            api, wargs, wc2utt, key = _ctm_args(case)
            data.write_ctm(api, f, *wargs)
            if case.get("as_generator"):
                # "an iterable of transcripts": a one-shot iterator must do, through the path branch as well
                data.write_ctm(iter(list(api)), path, *wargs)
                g = io.StringIO()
                data.write_ctm((x for x in list(api)), g, *wargs)
                require(g.getvalue() == f.getvalue(), "write_ctm given a generator differs from the list", g.getvalue(), f.getvalue())
                cl.append("transcripts_as_iterator")
            else:
                data.write_ctm(api, path, *wargs)
            readers = [lambda src: tx.plain(data.read_ctm(src, wc2utt))]
            cl.append("map_" + case["map"]["kind"])
            nontriv = case["map"]["kind"] == "dict"
        else:
            kw = _tg_kwargs(case)
            api = [tuple(e) for e in case["entries"]]
            data.write_textgrid(api, f, **kw)
            if case.get("as_generator"):
                data.write_textgrid(iter(list(api)), path, **kw)
                cl.append("transcripts_as_iterator")
            else:
                data.write_textgrid(api, path, **kw)
            is_point = _tg_is_point(case)
            fill = None if is_point else case["fill"]
            tid = _tg_tier_id(case)
            tid = 0 if tid is None else tid
            readers = [lambda src: tx.plain(data.read_textgrid(src, tid, fill))]
            cl.append("precision_3" if case["p"] == 3 else "precision_not3")
            if case["point_tier"] is True:
                cl.append("explicit_point_tier")
            if case["point_tier"] is False:
                cl.append("explicit_interval_tier")
                if all(tx.dec_round(e[1], case["p"]) == tx.dec_round(e[2], case["p"]) for e in case["entries"]):
                    cl.append("explicit_interval_all_zero_length")
            nontriv = case["p"] != 3 or case["point_tier"] is not None
        via_file = f.getvalue().encode("utf-8")
        via_path = tx.read_bytes(path)
        require(via_path == via_file, "%s writer: path output differs from open-file output" % fmt,
                via_path.decode("utf-8", "replace"), via_file.decode("utf-8"))
        for rd in readers:
            a = rd(path)
            with open(path) as g:
                b = rd(g)
            require(a == b, "%s reader: path result differs from open-file result" % fmt, a, b)
    return Info(nontrivial=nontriv, classes=cl)


# =============================================================================== transcript <-> token tensor

_FS = [None, 10, 1, 0.0625]
# ids are stored in a long tensor: anything in the int64 range is a legal id
_BIG_ID = st.sampled_from([2 ** 31 - 1, 2 ** 31, -2 ** 31 - 1, 2 ** 40 + 1, -2 ** 40, 2 ** 62, -2 ** 62, 2 ** 63 - 1, -2 ** 63])
# frame indices beyond the int32 range (a quarter of a frame is still resolved by a double up to ~2^44 frames)
_BIG_FRAME = st.sampled_from([2 ** 31 - 2, 2 ** 31 - 1, 2 ** 31, 2 ** 32 + 5, 2 ** 40])


@st.composite
def _tok_case(draw, tier):
    big = tier == "thorough"
    vocab = draw(st.lists(tx.words(set(), max_size=3), min_size=1, max_size=6, unique=True))
    ids = draw(st.lists(st.one_of(st.integers(-3, 60), st.integers(-3, 60), _BIG_ID), min_size=len(vocab), max_size=len(vocab),
                        unique=True))
    oov = draw(st.lists(tx.words(set(), max_size=4).filter(lambda w: w not in vocab), min_size=1, max_size=2, unique=True))
    unk_mode = draw(st.sampled_from(["none", "none", "token", "id"]))
    fs = draw(st.sampled_from(_FS))
    timing = draw(st.sampled_from(["quarter", "grid", "float"]))
    n = draw(st.integers(0, 8 if big else 6))
    items = []
    for _ in range(n):
        is_oov = unk_mode != "none" and draw(st.integers(0, 3)) == 0
        tok = draw(st.sampled_from(oov if is_oov else vocab))
        timed = draw(st.sampled_from([True, True, False]))
        if not timed:
            items.append([tok])
            continue
        a = draw(st.one_of(st.integers(0, 30), st.integers(0, 20000), st.integers(0, 20000), _BIG_FRAME if timing != "float" else st.integers(0, 30)))
        ln = draw(st.one_of(st.integers(0, 3), st.integers(0, 500)))
        if fs is None:
            items.append([tok, a, a + ln])
        elif timing == "grid":
            items.append([tok, a * fs / 1000, (a + ln) * fs / 1000])
        elif timing == "quarter":
            qs = draw(st.sampled_from([1, 3]))
            qe = qs if ln == 0 else draw(st.sampled_from([1, 3]))
            # floor for the start; half-up rounding for the end, at least one frame after the start
            ef = a if ln == 0 else max(a + 1, a + ln + (1 if qe == 3 else 0))
            items.append([tok, (4 * a + qs) * fs / 4000, (4 * (a + ln) + qe) * fs / 4000, a, ef])
        else:
            s = draw(st.floats(0, 100, allow_nan=False, allow_subnormal=False))
            e = s + draw(st.one_of(st.just(0.0), st.floats(0, 10, allow_nan=False, allow_subnormal=False)))
            items.append([tok, s, e])
    unk = None
    if unk_mode == "token":
        unk = draw(st.sampled_from(vocab))
    elif unk_mode == "id":
        unk = draw(st.integers(61, 70))
    return {"vocab": [[w, i] for w, i in zip(vocab, ids)], "items": items, "fs": fs, "timing": timing,
            "unk_mode": unk_mode, "unk": unk, "skip_frame_times": draw(st.sampled_from([False, False, True])),
            "no_vocab": False, "np_scalars": draw(st.sampled_from([False, False, False, True]))}


@st.composite
def _tok_case_ids(draw, tier):
    """token2id=None: the transcript's tokens are used directly as ids."""
    fs = draw(st.sampled_from(_FS))
    items = []
    for _ in range(draw(st.integers(0, 6))):
        tok = draw(st.one_of(st.integers(-3, 60), st.integers(-3, 60), _BIG_ID))
        if draw(st.booleans()):
            a, ln = draw(st.integers(0, 2000)), draw(st.integers(0, 50))
            items.append([tok, a, a + ln] if fs is None else [tok, (4 * a + 1) * fs / 4000, (4 * (a + ln) + 1) * fs / 4000, a, a + ln])
        else:
            items.append([tok])
    return {"vocab": [], "items": items, "fs": fs, "timing": "quarter", "unk_mode": "none", "unk": None,
            "skip_frame_times": draw(st.sampled_from([False, False, True])), "no_vocab": True}


def _tok_strategy(tier):
    return st.one_of(_tok_case(tier), _tok_case(tier), _tok_case(tier), _tok_case_ids(tier))


@subcheck("C11", "token_roundtrip", _tok_strategy, quick=1200, thorough=20000,
          doc="injective vocabularies, OOV tokens with unk given as token or as id, frame shifts {None,10,1,0.0625} ms, times on the "
              "frame grid / a quarter frame off it / arbitrary floats, skip_frame_times: tensor shape, ids and (unambiguous) frame "
              "indices as documented; token_to_transcript returns the same tokens (unk for OOV) and times within one frame shift",
          required_classes=["oov", "fs_None", "fs_0.0625", "timed", "untimed", "skip_frame_times", "no_vocab", "zero_length",
                            "id_beyond_int32", "frame_beyond_int32", "np_scalars"])
def _token_roundtrip(case):
    import torch

    data = _data()
    fs = case["fs"]
    token2id = None if case["no_vocab"] else {w: i for w, i in case["vocab"]}
    id2token = None if case["no_vocab"] else {i: w for w, i in case["vocab"]}
    np_scalars = bool(case.get("np_scalars"))
    if np_scalars:
        # ids as numpy integers (the module's own type variable for ids), times as numpy floats (np.isreal in the code)
        import numpy as np

        token2id = {w: np.int64(i) for w, i in token2id.items()}
    transcript = []
    for it in case["items"]:
        if len(it) == 1:
            transcript.append(it[0])
        elif np_scalars and fs is not None:
            transcript.append((it[0], np.float64(it[1]), np.float64(it[2])))
        else:
            transcript.append((it[0], it[1], it[2]))
    if np_scalars and len(transcript) % 2:
        transcript = tuple(transcript)  # "Sequence"
    skip = case["skip_frame_times"]
    tok = data.transcript_to_token(transcript, token2id, fs, case["unk"], skip)
    R = len(transcript)
    require(tok.dtype == torch.long and tuple(tok.shape) == ((R,) if skip else (R, 3)), "tensor dtype/shape",
            [str(tok.dtype), list(tok.shape)], ["torch.int64", [R] if skip else [R, 3]])
    # ids
    unk_id = None
    if case["unk_mode"] == "token":
        unk_id = token2id[case["unk"]]
    elif case["unk_mode"] == "id":
        unk_id = case["unk"]
    exp_ids, exp_tokens, n_oov = [], [], 0
    for it in case["items"]:
        w = it[0]
        if token2id is None:
            exp_ids.append(w)
            exp_tokens.append(w)
        elif w in token2id:
            exp_ids.append(token2id[w])
            exp_tokens.append(w)
        else:
            n_oov += 1
            exp_ids.append(unk_id)
            exp_tokens.append(case["unk"])  # the unk token, or the bare id when unk was given as an id
    got_ids = (tok if skip else tok[:, 0]).tolist()
    require(got_ids == exp_ids, "token ids", got_ids, exp_ids)
    if not skip:
        for r, it in enumerate(case["items"]):
            se = tok[r, 1:].tolist()
            if len(it) == 1:
                require(se == [-1, -1], "untimed token must get -1, -1", se, [-1, -1])
            elif fs is None:
                require(se == [it[1], it[2]], "frame times without frame_shift_ms must be kept", se, [it[1], it[2]])
            elif len(it) == 5:
                require(se == [it[3], it[4]], "frames of times a quarter frame past the grid (floor / round formula)", se, [it[3], it[4]])
            else:
                # documented formula, exact rational arithmetic; accepted only when not within 1e-6 frames of a
                # rounding boundary (float evaluation may legitimately fall on either side there)
                q1 = Fraction(it[1]) * 1000 / Fraction(fs)
                q2 = Fraction(it[2]) * 1000 / Fraction(fs)
                eps = Fraction(1, 10 ** 6)
                if it[1] == it[2]:
                    if min(q1 - (q1 // 1), (q1 // 1) + 1 - q1) > eps:
                        require(se == [int(q1 // 1)] * 2, "zero-length token: start = end = floor(1000 s / shift)", se, [int(q1 // 1)] * 2)
                else:
                    h = q2 + Fraction(1, 2)
                    if min(q1 - (q1 // 1), (q1 // 1) + 1 - q1) > eps and min(h - (h // 1), (h // 1) + 1 - h) > eps:
                        sf = int(q1 // 1)
                        ef = max(sf + 1, int(h // 1))
                        require(se == [sf, ef], "frames != (floor(1000 s/shift), max(s_f + 1, round(1000 e/shift)))", se, [sf, ef])
    # back
    back = data.token_to_transcript(tok, id2token, fs)
    require(len(back) == R, "token_to_transcript length", len(back), R)
    for r, (it, b) in enumerate(zip(case["items"], back)):
        if skip or len(it) == 1:
            require(not isinstance(b, tuple) and b == exp_tokens[r], "token %d after the round trip" % r, tx.plain(b), exp_tokens[r])
            continue
        require(isinstance(b, tuple) and len(b) == 3 and b[0] == exp_tokens[r], "timed token %d after the round trip" % r,
                tx.plain(b), [exp_tokens[r], it[1], it[2]])
        if fs is None:
            require([b[1], b[2]] == [it[1], it[2]], "frame times after the round trip", [b[1], b[2]], [it[1], it[2]])
        else:
            # one frame shift, plus the resolution of a double at that magnitude (a few roundings at 2^-53 relative)
            tol = fs / 1000 * (1 + 1e-9) + 1e-12 + 2e-15 * max(abs(it[1]), abs(it[2]))
            require(abs(b[1] - it[1]) <= tol and abs(b[2] - it[2]) <= tol, "times not recovered within one frame shift (%g s)" % (fs / 1000),
                    [b[1], b[2]], [it[1], it[2]])
    cl = ["fs_%s" % fs, "timing_" + case["timing"], "unk_" + case["unk_mode"]]
    if n_oov:
        cl.append("oov")
    if any(len(it) > 1 for it in case["items"]):
        cl.append("timed")
    if any(len(it) == 1 for it in case["items"]):
        cl.append("untimed")
    if any(len(it) > 1 and it[1] == it[2] for it in case["items"]):
        cl.append("zero_length")
    if skip:
        cl.append("skip_frame_times")
    if case["no_vocab"]:
        cl.append("no_vocab")
    if any(i is not None and not -2 ** 31 <= i < 2 ** 31 for i in exp_ids):
        cl.append("id_beyond_int32")
    if not skip and any(len(it) > 1 and max(tok[r, 1:].tolist()) >= 2 ** 31 for r, it in enumerate(case["items"])):
        cl.append("frame_beyond_int32")
    if np_scalars:
        cl.append("np_scalars")
    nontriv = any(len(it) > 1 for it in case["items"]) and fs is not None and not skip
    return Info(nontrivial=nontriv or bool(n_oov), classes=cl)


# =============================================================================== ctm reader vs an independent writer


@st.composite
def _ctm_text_case(draw, tier):
    case = draw(_ctm_case(tier))
    case["decor"] = {
        "shuffle": draw(st.lists(st.integers(0, 9), min_size=1, max_size=8)),
        "sep": draw(st.lists(st.sampled_from([" ", " ", "  ", "\t", " \t "]), min_size=1, max_size=5)),
        "lead": draw(st.lists(st.sampled_from(["", "", " ", "\t"]), min_size=1, max_size=3)),
        # after a line: nothing / a trailing comment (the documented "there  ;; comment" form, also without the blanks) /
        # a whole comment line or blank line that follows
        "after": draw(st.lists(st.sampled_from(["", "", "  ;; comment", ";;x", " ;; ;; a b c d e f", "\n;; w A 0.0 1.0 commented_out",
                                                  "\n", "\n   \n", "\n;;"]), min_size=1, max_size=6)),
        "head": draw(st.sampled_from(["", ";; header comment\n", "\n;; a\n;; b\n"])),
    }
    return case


@subcheck("C11", "ctm_reader_reference_text", lambda tier: _ctm_text_case(tier), quick=400, thorough=6000,
          doc="ctm text from an independent serialiser: lines in a generated (not the mandated) order, fields separated by blanks/tabs, "
              "';;' comment lines, trailing ';;' comments (as in the commands' help text and the repository's tests), blank lines: "
              "read_ctm returns every utterance once with its tokens sorted by start time; the text of comments is ignored",
          required_classes=["comment_line", "trailing_comment", "shuffled_lines", "tab_separated", "map_dict"])
def _ctm_reader_reference(case):
    data = _data()
    _, _, wc2utt, key = _ctm_args(case)
    dec = case["decor"]
    lines = []
    for u in case["corpus"]:
        w, c = key[u["utt"]]
        for tok, s, e in u["tokens"]:
            lines.append([w, c, repr(s), repr(e - s), tok])
    perm = tx.perm_of(dec["shuffle"], len(lines))
    text = dec["head"]
    k = 0
    for n, i in enumerate(perm):
        sep = [dec["sep"][(k + j) % len(dec["sep"])] for j in range(4)]
        k += 4
        f = lines[i]
        text += dec["lead"][n % len(dec["lead"])] + f[0] + sep[0] + f[1] + sep[1] + f[2] + sep[2] + f[3] + sep[3] + f[4]
        after = dec["after"][n % len(dec["after"])]
        if after.startswith(";;") and f[4].endswith(";"):
            after = " " + after  # "a;" + ";;x" would read as the token "a" and the comment ";x"
        text += after + "\n"
    got = data.read_ctm(io.StringIO(text), wc2utt)
    _ctm_compare(case, got, key, "read_ctm(reference text)", ordered=False)
    # "the waveform file names are treated as the utterance IDs, and the channel is ignored"
    if wc2utt is not None:
        got2 = tx.plain(data.read_ctm(io.StringIO(text)))
        waves = sorted({key[u["utt"]][0] for u in case["corpus"] if u["tokens"]})
        require(sorted(g[0] for g in got2) == waves, "read_ctm without wc2utt: utterances are the waveform names", sorted(g[0] for g in got2), waves)
        ntok = sum(len(u["tokens"]) for u in case["corpus"])
        require(sum(len(g[1]) for g in got2) == ntok, "read_ctm without wc2utt: every token kept", sum(len(g[1]) for g in got2), ntok)
    info = _ctm_info(case)
    cl = list(info.classes)
    if lines:
        used_after = {dec["after"][n % len(dec["after"])] for n in range(len(lines))}
        if any(a.startswith("\n;;") for a in used_after) or dec["head"]:
            cl.append("comment_line")
        if any(a and not a.startswith("\n") for a in used_after):
            cl.append("trailing_comment")
        if any("\t" in dec["sep"][j % len(dec["sep"])] for j in range(4 * len(lines))):
            cl.append("tab_separated")
        if perm != sorted(perm):
            cl.append("shuffled_lines")
    return Info(nontrivial=info.nontrivial or (len(lines) >= 3 and perm != sorted(perm)), classes=cl)


# =============================================================================== token tensors in other memory layouts

_LAYOUTS = tx.LAYOUTS


@st.composite
def _layout_case(draw, tier):
    big = tier == "thorough"
    shape = draw(st.sampled_from(["R3", "R3", "R3", "R1", "R"]))
    rows = []
    for _ in range(draw(st.integers(0, 9 if big else 6))):
        i = draw(st.one_of(st.integers(-3, 12), st.integers(-3, 12), _BIG_ID))
        if draw(st.booleans()):
            a = draw(st.one_of(st.integers(0, 30), st.integers(0, 20000), _BIG_FRAME))
            rows.append([i, a, a + draw(st.integers(0, 40))])
        else:
            rows.append([i, -1, -1])
    ids = sorted({r[0] for r in rows})
    return {"shape": shape, "rows": rows, "layout": draw(st.sampled_from(_LAYOUTS)), "junk": draw(st.sampled_from([-1, 0, 7, 2 ** 62, -2 ** 63])),
            "fs": draw(st.sampled_from(_FS)), "names": draw(st.one_of(st.none(), st.lists(tx.words(set(), max_size=3), min_size=len(ids), max_size=len(ids))))}


@subcheck("C11", "token_tensor_layouts", lambda tier: _layout_case(tier), quick=600, thorough=8000,
          doc="token_to_transcript on (R,3) / (R,1) / (R,) long tensors that are views into larger tensors filled with other values "
              "(storage offset, row slice, column slice, transposed, every other row): same transcript as for the tensor's values "
              "(ids mapped, -1 boundaries dropped, frames * shift / 1000 in exact rationals at 1e-12), twice in a row, input untouched",
          required_classes=["layout_storage_offset", "layout_row_slice", "layout_col_slice", "layout_transposed", "layout_strided_rows",
                            "shape_R3", "shape_R1", "shape_R", "noncontiguous", "timed"])
def _token_tensor_layouts(case):
    import torch

    data = _data()
    rows, fs, shape = case["rows"], case["fs"], case["shape"]
    if shape == "R3":
        t = torch.tensor(rows, dtype=torch.long).view(-1, 3)
    elif shape == "R1":
        t = torch.tensor([r[0] for r in rows], dtype=torch.long).view(-1, 1)
    else:
        t = torch.tensor([r[0] for r in rows], dtype=torch.long)
    v, base = tx.as_layout(torch, t, case["layout"], case["junk"])
    assert torch.equal(v, t), "harness: the view does not hold the values"
    ids = sorted({r[0] for r in rows})
    id2token = None if case["names"] is None else dict(zip(ids, case["names"]))
    exp = []
    for i, a, b in rows:
        tok = i if id2token is None else id2token[i]
        if shape != "R3" or a == -1:
            exp.append([tok])
        elif fs is None:
            exp.append([tok, a, b])
        else:
            exp.append([tok, Fraction(a) * Fraction(fs) / 1000, Fraction(b) * Fraction(fs) / 1000])
    before = base.clone()
    for attempt in (1, 2):
        got = data.token_to_transcript(v, id2token, fs)
        require(len(got) == len(exp), "token_to_transcript length (call %d, layout %s)" % (attempt, case["layout"]), len(got), len(exp))
        for r, (g, e) in enumerate(zip(got, exp)):
            if len(e) == 1:
                ok = not isinstance(g, tuple) and g == e[0]
            else:
                ok = isinstance(g, tuple) and len(g) == 3 and g[0] == e[0] and all(
                    abs(Fraction(x) - y) <= Fraction(1, 10 ** 12) * (1 + abs(y)) for x, y in zip(g[1:], e[1:]))
            require(ok, "row %d of a %s tensor laid out as %s (call %d)" % (r, shape, case["layout"], attempt), tx.plain(g),
                    [e[0]] + [float(x) for x in e[1:]])
        require(torch.equal(base, before), "token_to_transcript changed its input tensor", None, None)
    cl = ["layout_" + case["layout"], "shape_" + shape, "fs_%s" % fs]
    if not v.is_contiguous():
        cl.append("noncontiguous")
    if v.numel() and v.storage_offset():
        cl.append("nonzero_storage_offset")
    if shape == "R3" and any(r[1] != -1 for r in rows):
        cl.append("timed")
    return Info(nontrivial=case["layout"] != "own" and len(rows) >= 2, classes=cl)


# =============================================================================== read_trn_iter: call patterns


def _iter_strategy(tier):
    k = st.integers(0, 2)
    return st.fixed_dictionaries({
        "texts": st.lists(_trn_corpus(tier, max_utts=6), min_size=3, max_size=3),
        "modes": st.lists(st.sampled_from(["file", "path", "pool_file", "pool_path"]), min_size=3, max_size=3),
        "blank": st.lists(st.sampled_from(["", "", "\n"]), min_size=1, max_size=3),
        "schedule": st.lists(st.tuples(k, st.sampled_from(["next", "next", "next", "next", "close", "reopen"])).map(list), min_size=4, max_size=24),
        "order": st.lists(st.integers(0, 6), min_size=1, max_size=6),
        "wrap": st.just([-1, -1]), "times": st.just([None]),
    })


@subcheck("C11", "trn_iter_patterns", _iter_strategy, quick=400, thorough=6000,
          doc="three read_trn_iter iterators (open file / path, serial / simulated pool) advanced in a generated interleaving, some "
              "abandoned half-way (close) and re-created, the rest held open and drained at the end, then every file read again in one "
              "go: each item is the item of its own file at its own position; the end of an iterator comes exactly after the last line",
          required_classes=["interleaved", "abandoned_midway", "restarted", "held_open_until_end", "mode_path", "mode_pool_file", "mode_pool_path"])
def _trn_iter_patterns(case):
    data = _data()
    exps, texts = [], []
    for c in case["texts"]:
        sub = {"corpus": c, "wrap": case["wrap"], "times": case["times"], "blank": case["blank"]}
        texts.append(_trn_mp_text(sub))
        exps.append(_trn_expected(sub))
    cl = set()
    with tx.scratch() as d, tx.simulated_pool(case["order"]):
        paths = []
        for k, t in enumerate(texts):
            paths.append(os.path.join(d, "t%d.trn" % k))
            tx.write_text(paths[-1], t)

        def make(k):
            mode = case["modes"][k]
            cl.add("mode_" + mode)
            src = paths[k] if mode.endswith("path") else io.StringIO(texts[k])
            if mode.startswith("pool"):
                return data.read_trn_iter(src, False, 2, 1 + k)
            return data.read_trn_iter(src, False)

        its = [make(k) for k in range(3)]
        pos = [0, 0, 0]
        state = ["fresh"] * 3  # fresh / running / done / closed
        last = None
        for k, act in case["schedule"]:
            if act == "reopen":
                if state[k] in ("closed", "done"):
                    its[k], pos[k], state[k] = make(k), 0, "fresh"
                    cl.add("restarted")
                continue
            if state[k] in ("done", "closed"):
                continue
            if act == "close":
                if state[k] == "running" and pos[k] < len(exps[k]):
                    cl.add("abandoned_midway")
                its[k].close()
                state[k] = "closed"
                continue
            if last is not None and last != k and state[k] == "running":
                cl.add("interleaved")
            last = k
            try:
                item = next(its[k])
            except StopIteration:
                require(pos[k] == len(exps[k]), "iterator %d (%s) ended after %d of %d utterances" % (k, case["modes"][k], pos[k], len(exps[k])),
                        pos[k], len(exps[k]))
                state[k] = "done"
                continue
            require(pos[k] < len(exps[k]), "iterator %d (%s) yields beyond the end of its file" % (k, case["modes"][k]), tx.plain(item), None)
            require(tx.plain(item) == exps[k][pos[k]], "iterator %d (%s), item %d: not that file's utterance at that position" % (
                k, case["modes"][k], pos[k]), tx.plain(item), exps[k][pos[k]])
            pos[k] += 1
            state[k] = "running"
        for k in range(3):
            if state[k] in ("running", "fresh"):
                rest = tx.plain(list(its[k]))
                require(rest == exps[k][pos[k]:], "iterator %d (%s) held open across the other calls: remaining items" % (k, case["modes"][k]),
                        rest, exps[k][pos[k]:])
                if state[k] == "running":
                    cl.add("held_open_until_end")
        for k in range(3):
            again = tx.plain(data.read_trn(paths[k], False))
            require(again == exps[k], "file %d read again after the interleaved passes" % k, again, exps[k])
    depth = max(tx.trn_depth(u["items"]) for c in case["texts"] for u in c) if any(case["texts"]) else 0
    return Info(nontrivial="interleaved" in cl and sum(len(e) for e in exps) >= 3, classes=sorted(cl) + ["depth_%d" % depth])


# =============================================================================== sizes across implementation thresholds

_SZ_WORDS = ["a", "b", "c", "\u00e9", "w1", "w2", "x\u00a0y", "q\u2028r", "long-token", "@"]   # trn / TextGrid
_SZ_CTM_WORDS = ["a", "b", "c", "é", "w1", "w2", "long-token", "@", ";"]
_SZ_FMTS = ["trn_lines", "trn_long_line", "trn_long_token", "trn_depth", "trn_lines_real", "ctm_tokens", "ctm_utts", "textgrid",
            "token_rows", "token_vocab"]


def _nest(depth):
    alt = {"alt": [["x"], ["y", "z"]]}
    for i in range(depth - 1):
        alt = {"alt": [["a%d" % (i % 7), alt], ["b"]]} if i % 3 else {"alt": [[alt], ["b", "c"]]}
    return alt


def _expand_trn(fmt, n, seed):
    """corpus of a trn case, a pure function of (fmt, n, seed)."""
    rng = tx.Lcg(seed)
    if fmt in ("trn_lines", "trn_lines_real"):
        corpus = []
        for i in range(n):
            items = [rng.pick(_SZ_WORDS) for _ in range(rng.next(4))]
            if i % 5 == 3:
                items.insert(rng.next(len(items) + 1), {"alt": [[rng.pick(_SZ_WORDS)], [rng.pick(_SZ_WORDS), rng.pick(_SZ_WORDS)]]})
            if i % 11 == 7:
                items.append(_nest(2))
            corpus.append({"utt": "u%d" % i, "items": items})
        return corpus
    if fmt == "trn_long_line":
        items = []
        for j in range(n):
            items.append(rng.pick(_SZ_WORDS) if j % 97 != 50 else {"alt": [[rng.pick(_SZ_WORDS)], ["k"]]})
        return [{"utt": "first", "items": ["a"]}, {"utt": "long", "items": items}, {"utt": "last", "items": []}]
    if fmt == "trn_long_token":
        chars = "abc\u00e9\u00a0-\u2028"
        tok = "s" + "".join(chars[rng.next(len(chars))] for _ in range(max(0, n - 2))) + "e"
        utt = "".join("uv w"[rng.next(4)] for _ in range(n)).strip() or "u"
        return [{"utt": "first", "items": ["a", tok, "b"]}, {"utt": utt, "items": [tok[: n // 2 + 1], "c"]}]
    # trn_depth
    return [{"utt": "flat", "items": ["a"]}, {"utt": "deep", "items": ["s", _nest(n), "e"]}, {"utt": "deep2", "items": [_nest(max(1, n - 1))]}]


def _expand_ctm(fmt, n, seed):
    rng = tx.Lcg(seed)
    if fmt == "ctm_tokens":
        ties = seed % 3 == 0
        toks = []
        for j in range(n):
            k = (j * 7919) % n  # a permutation of 0..n-1 (7919 is prime and larger than n): input not sorted by time
            s = (k // 2 if ties else k) / 8
            toks.append([rng.pick(_SZ_CTM_WORDS), s, s + rng.next(5) / 8])
        corpus = [{"utt": "ub", "tokens": [["b", 0.5, 1.0], ["a", 0.25, 0.5]]}, {"utt": "ua", "tokens": toks},
                  {"utt": "uc", "tokens": []}]
        return {"corpus": corpus, "timing": "dyadic", "map": {"kind": "channel", "channel": "B"} if seed % 2 else {"kind": "default"}}
    corpus, triples = [], []
    for i in range(n):
        k = (i * 7919) % n
        toks = [[rng.pick(_SZ_CTM_WORDS), rng.next(64) / 8, 8 + rng.next(8) / 8] for _ in range(rng.next(3))]
        corpus.append({"utt": "u%d" % i, "tokens": toks})
        triples.append(["u%d" % i, "w%d" % (k // 2), "AB"[k % 2]])  # two utterances share a waveform file
    return {"corpus": corpus, "timing": "dyadic", "map": {"kind": "dict", "utt2wc": triples}}


def _expand_textgrid(n, seed, p, kind, fill, base):
    rng = tx.Lcg(seed)
    scale = 10 ** p
    points = kind != "interval"
    pos = base * scale + rng.next(3)
    entries = []
    labels = _SZ_WORDS + ["", "a b", "item [2]:"]
    for _ in range(n):
        ln = 0 if points else rng.next(3)
        gap = rng.next(3)
        if ln + gap == 0:
            gap = 1
        entries.append([rng.pick(labels), pos / scale, (pos + ln) / scale])
        pos += ln + gap
    return {"p": p, "entries": entries, "point_tier": {"interval": False, "point": True, "infer": None}[kind], "ongrid": True, "tier_name": None,
            "start_time": None, "end_time": None, "by": "default", "fill": fill}


def _expand_token(fmt, n, seed, fs, skip):
    rng = tx.Lcg(seed)
    if fmt == "token_vocab":
        V, R = n, 24
    else:
        V, R = 6, n
    mod = 16411  # prime > every generated size: ids are distinct and not in file order
    vocab = [["v%d" % i, (i * 31) % mod - 5] for i in range(V)]
    items, a = [], rng.next(50)
    for r in range(R):
        w = vocab[(V - 1 - r) % V if r % 2 else rng.next(V)][0]
        if r % 7 == 6:
            items.append([w])
            continue
        ln = rng.next(4)
        if fs is None:
            items.append([w, a, a + ln])
        else:
            qs, qe = 1 + 2 * rng.next(2), 1 + 2 * rng.next(2)
            if ln == 0:
                qe = qs
            ef = a if ln == 0 else max(a + 1, a + ln + (1 if qe == 3 else 0))
            items.append([w, (4 * a + qs) * fs / 4000, (4 * (a + ln) + qe) * fs / 4000, a, ef])
        a += ln + rng.next(3)
    return {"vocab": vocab, "items": items, "fs": fs, "timing": "quarter", "unk_mode": "none", "unk": None, "skip_frame_times": skip,
            "no_vocab": False, "np_scalars": False}


def _size_grid(tier):
    """Every (dimension, threshold size) cell, enumerated: the options of a cell (seed of the expansion, worker count, chunk
    size, precision, ...) are derived from VERIF_SEED and the cell, so different seeds run different variants of every cell."""
    big = tier == "thorough"
    sizes = tx.THRESHOLDS_THOROUGH if big else tx.THRESHOLDS
    base = int(os.environ.get("VERIF_SEED", "1"))
    cases = []
    for fi, fmt in enumerate(_SZ_FMTS):
        if fmt == "trn_depth":
            ns = [n for n in sizes if n <= 129]  # deeper nesting meets Python's recursion limit (writer and harness alike)
        elif fmt == "trn_lines_real":
            # the default chunk size of the multi-process reader is 1000 lines
            ns = [999, 1000, 1001, 1023, 1024, 1025, 2001, 2049] if big else [1000, 1001, 1025, 2049]
        else:
            ns = sizes
        for n in ns:
            for v in range(6 if big else 2):
                rng = tx.Lcg((base * 1000003 + fi * 10007 + n) * 16 + v)
                case = {"fmt": fmt, "n": n, "seed": rng.next(10 ** 6)}
                if fmt.startswith("trn"):
                    case.update(processes=rng.pick([2, 4, 17]) if fmt != "trn_lines_real" else 2,
                                chunk_size=rng.pick([1, 16, 17, 1000, 1024, 5000]), order=[rng.next(7) for _ in range(1 + rng.next(8))],
                                via_path=bool(rng.next(2)))
                    if fmt == "trn_lines_real" and v:
                        continue
                elif fmt == "textgrid":
                    case.update(p=rng.pick([0, 1, 2, 3, 3, 6]), kind=["interval", "point", "infer"][(v + rng.next(2) * 2) % 3],
                                fill=rng.pick([None, "sil"]), base=rng.pick([0, 0, 9, 990]))
                elif fmt.startswith("token"):
                    case.update(fs=rng.pick(_FS), skip=rng.next(4) == 0)
                cases.append(case)
    return cases


@subcheck("C11", "size_thresholds", _size_grid, quick=340, thorough=1300, timeout_s=2400, exhaustive=True,
          doc="enumerated grid: sizes 15/16/17 ... 1023/1024/1025, 2049 (thorough: to 8193) along every unbounded dimension - trn lines, tokens per line, "
              "characters per token and utterance id, nesting depth (to 129), ctm tokens per utterance and utterances, TextGrid entries, "
              "token rows, vocabulary size - with the input expanded deterministically from (size, seed) and judged by the same "
              "oracles as the small cases (round trip, worker independence under the simulated pool and, for 1000-2049 lines with the "
              "default chunk size region, a real fork pool)",
          required_classes=["size_15_17", "size_31_33", "size_63_65", "size_127_129", "size_255_257", "size_1023_1025", "size_ge_2049",
                            "fmt_trn_lines", "fmt_trn_long_line", "fmt_trn_depth", "fmt_ctm_tokens", "fmt_ctm_utts", "fmt_textgrid",
                            "fmt_token_rows", "fmt_token_vocab", "fmt_trn_lines_real", "fmt_trn_long_token"])
def _size_thresholds(case):
    fmt, n, seed = case["fmt"], case["n"], case["seed"]
    if fmt.startswith("trn"):
        sub = {"corpus": _expand_trn(fmt, n, seed), "wrap": [-1, -1], "times": [None], "warn": False, "blank": [""],
               "processes": case["processes"], "chunk_size": case["chunk_size"], "order": case["order"], "delays_ms": [0],
               "via_path": case["via_path"]}
        _trn_roundtrip(sub)
        info = _trn_mp_body(sub, fmt == "trn_lines_real")
    elif fmt.startswith("ctm"):
        info = _ctm_roundtrip(_expand_ctm(fmt, n, seed))
    elif fmt == "textgrid":
        info = _tg_roundtrip(_expand_textgrid(n, seed, case["p"], case["kind"], case["fill"], case["base"]))
    else:
        info = _token_roundtrip(_expand_token(fmt, n, seed, case["fs"], case["skip"]))
    return Info(nontrivial=True, classes=["fmt_" + fmt, tx.size_bucket(n), "%s_%s" % (fmt, tx.size_bucket(n))] + [c for c in info.classes if c in (
        "several_chunks", "fill_requested", "point_tier", "interval_tier", "equal_starts", "interleaved_utts", "nested")])
