"""C08 SpecAugment draws stay within bounds and masking touches only masked cells.

Sub-checks (all on float32 features unless a class says otherwise):

* draw_bounds / draw_bounds_injected - every tensor returned by ``draw_parameters`` against
  the documented caps, computed with exact rational arithmetic; randomness either from the
  real generator (seed in the case) or from scripted uniforms k/2^24 biased to the ends of
  the generator's range.
* mask_exact - ``apply_parameters`` with mask parameters only (drawn, or generated inside
  their bounds): output is bit-identical to the input outside the masked bands, exactly 0
  inside (loop oracle).
* linear_warp - drawn time warps (order 1): effective read positions over the valid frames,
  observed both through ``warp_1d_grid`` and through ``apply_parameters`` on a time ramp,
  are non-decreasing and begin / end within half a frame of frames 0 / len-1.
* warp_range - any order, time and/or frequency warp with or without masks: finite, inside
  the range of the element's input, masked cells 0, shape kept.
* call_modes - eval mode returns the input unchanged; training call == apply(draw) under the
  same generator state (module and functional form); shape kept.
"""
from __future__ import annotations

from fractions import Fraction

from hypothesis import strategies as st

from ..core import Info, require, subcheck
from .. import fakes

TWO24 = 1 << 24
PRIME = 4099  # prime > any N*T*F generated here (3 * 64 * 12)

# proportions: dyadic (len * p exact in float32) plus the default 0.04 and two others whose
# product with a length may round either way (handled by the ambiguity rule in _cap)
PROPS_DYADIC = [0.0, 1 / 1024, 0.125, 0.25, 0.5, 0.75, 1.0]
PROPS_OTHER = [0.04, 0.1, 0.3]


# ------------------------------------------------------------------ case -> tensors


def _feats(case, kind=None):
    """Distinct non-zero dyadic values (k/8, alternating sign), or a time ramp."""
    import torch

    N, T, F = case["N"], case["T"], case["F"]
    kind = kind or case.get("feat_kind", "distinct")
    if kind == "ramp":
        x = torch.arange(T, dtype=torch.float32).view(1, T, 1).expand(N, T, F).contiguous()
        return x
    a, b = case.get("fa", 3), case.get("fb", 1)
    a = a % PRIME or 1
    n = N * T * F
    assert n < PRIME
    vals = []
    for i in range(n):
        k = (a * i + b) % PRIME + 1  # distinct in 1..PRIME because a is a unit mod PRIME
        s = -1 if (case.get("signed", True) and k % 3 == 0) else 1
        vals.append(s * k / 8.0)
    dt = torch.float64 if case.get("dtype") == "float64" else torch.float32
    return torch.tensor(vals, dtype=dt).view(N, T, F)


def _lengths(case):
    import torch

    if case.get("lengths") is None:
        return None
    return torch.tensor([int(x) for x in case["lengths"]], dtype=torch.long)


def _eff_lengths(case):
    return [case["T"]] * case["N"] if case.get("lengths") is None else [int(x) for x in case["lengths"]]


CFG_KEYS = ["max_time_warp", "max_freq_warp", "max_time_mask", "max_freq_mask", "max_time_mask_proportion",
            "num_time_mask", "num_time_mask_proportion", "num_freq_mask"]


def _module(cfg):
    from pydrobert.torch.modules import SpecAugment

    return SpecAugment(
        max_time_warp=float(cfg["max_time_warp"]), max_freq_warp=float(cfg["max_freq_warp"]),
        max_time_mask=cfg["max_time_mask"], max_freq_mask=cfg["max_freq_mask"],
        max_time_mask_proportion=float(cfg["max_time_mask_proportion"]), num_time_mask=cfg["num_time_mask"],
        num_time_mask_proportion=float(cfg["num_time_mask_proportion"]), num_freq_mask=cfg["num_freq_mask"],
        interpolation_order=cfg.get("interpolation_order", 1))


def _draw(case, feats, lengths):
    """Call draw_parameters through the route named in the case, with the case's randomness."""
    import contextlib

    import torch
    from pydrobert.torch.functional import spec_augment_draw_parameters

    cfg = case["cfg"]
    if case.get("script") is not None:
        ctx = fakes.scripted_uniform([k / TWO24 for k in case["script"]])
    else:
        ctx = contextlib.nullcontext()
        torch.manual_seed(case["seed"])
    with ctx:
        if case.get("route", "module") == "module":
            m = _module(cfg)
            params = m.draw_parameters(feats, lengths) if lengths is not None else m.draw_parameters(feats)
        else:
            params = spec_augment_draw_parameters(
                feats, float(cfg["max_time_warp"]), float(cfg["max_freq_warp"]), cfg["max_time_mask"],
                cfg["max_freq_mask"], float(cfg["max_time_mask_proportion"]), cfg["num_time_mask"],
                float(cfg["num_time_mask_proportion"]), cfg["num_freq_mask"], lengths)
    return params


# ------------------------------------------------------------------ oracle: bounds


def _cap(length, prop, absolute):
    """Largest admissible integer: min(absolute, int(prop * length)).

    Exact when prop * length is exact in binary floating point (dyadic proportions); for other
    proportions the product may round across an integer, so the bound is the larger of the two
    candidates (sound: never demands more than the documentation)."""
    x = Fraction(prop) * length
    hi = int(x * (1 + Fraction(1, 10 ** 6)))
    return min(absolute, hi)


def _check_draw(case, params):
    """Bounds of every drawn tensor. Returns the set of classes observed."""
    import torch

    cfg = case["cfg"]
    N, T, F = case["N"], case["T"], case["F"]
    lens = _eff_lengths(case)
    require(len(params) == 8, "draw_parameters must return 8 tensors", len(params), 8)
    w_0, w, v_0, v, t_0, t, f_0, f = params
    classes = set()

    def empty(x, name):
        require(x is not None and x.numel() == 0, "disabled step must return an empty tensor: " + name,
                None if x is None else list(x.shape), "numel 0")

    def warp(x0, x, limit, sizes, name):
        if not limit:
            empty(x0, name + "_0")
            empty(x, name)
            return
        require(tuple(x0.shape) == (N,) and tuple(x.shape) == (N,), name + " warp parameters must have shape (N,)",
                [list(x0.shape), list(x.shape)], [N])
        require(bool(torch.isfinite(x0).all()) and bool(torch.isfinite(x).all()), name + " warp parameters not finite",
                [x0.tolist(), x.tolist()], None)
        for n in range(N):
            size = sizes[n]
            W = min(float(limit), size / 2.0)
            tol = 1e-4 * size
            c, s = float(x0[n]), float(x[n])
            require(W - tol <= c <= size - W + tol, "%s warp centre outside [W, size - W] (n=%d, size=%d, W=%g)" % (name, n, size, W),
                    c, [W, size - W])
            require(abs(s) <= W + tol, "%s warp shift exceeds W (n=%d, size=%d, W=%g)" % (name, n, size, W), s, W)
            if float(limit) > size / 2.0:
                classes.add(name + "_warp_limited_by_half_size")
            if size == 1:
                classes.add(name + "_warp_size_1")

    warp(w_0, w, cfg["max_time_warp"], lens, "time")
    warp(v_0, v, cfg["max_freq_warp"], [F] * N, "freq")

    def integral(x, name):
        if x.dtype.is_floating_point:
            require(bool((x == x.round()).all()), name + " must hold integers", x.tolist(), None)

    tm_on = bool(cfg["max_time_mask"] and cfg["max_time_mask_proportion"] and cfg["num_time_mask"]
                 and cfg["num_time_mask_proportion"])
    if not tm_on:
        empty(t_0, "t_0")
        empty(t, "t")
    else:
        M = cfg["num_time_mask"]
        require(tuple(t_0.shape) == (N, M) and tuple(t.shape) == (N, M), "time mask parameters must have shape (N, num_time_mask)",
                [list(t_0.shape), list(t.shape)], [N, M])
        integral(t, "t")
        integral(t_0, "t_0")
        for n in range(N):
            L = lens[n]
            cap = _cap(L, cfg["max_time_mask_proportion"], cfg["max_time_mask"])
            ncap = _cap(L, cfg["num_time_mask_proportion"], cfg["num_time_mask"])
            widths = [int(x) for x in t[n].tolist()]
            starts = [int(x) for x in t_0[n].tolist()]
            for m in range(M):
                require(0 <= widths[m] <= cap, "time mask width outside [0, min(max_time_mask, int(prop*len))] (n=%d, len=%d)" % (n, L),
                        widths[m], cap)
                require(0 <= starts[m] and starts[m] + widths[m] <= L, "time mask not inside the valid frames (n=%d, len=%d)" % (n, L),
                        [starts[m], widths[m]], L)
            nz = sum(1 for x in widths if x > 0)
            require(nz <= ncap, "more time masks than min(num_time_mask, int(prop*len)) (n=%d, len=%d)" % (n, L), nz, ncap)
            if nz:
                classes.add("time_mask_positive")
            if any(x == cap and cap > 0 for x in widths):
                classes.add("time_mask_at_cap")
            if any(widths[m] > 0 and starts[m] + widths[m] == L for m in range(M)):
                classes.add("time_mask_touches_end")
            if ncap < M:
                classes.add("time_mask_count_limited")
            if cap < cfg["max_time_mask"]:
                classes.add("time_mask_width_limited_by_proportion")
            if nz == ncap and ncap > 0:
                classes.add("time_mask_count_at_cap")
    fm_on = bool(cfg["max_freq_mask"] and cfg["num_freq_mask"])
    if not fm_on:
        empty(f_0, "f_0")
        empty(f, "f")
    else:
        M = cfg["num_freq_mask"]
        require(tuple(f_0.shape) == (N, M) and tuple(f.shape) == (N, M), "frequency mask parameters must have shape (N, num_freq_mask)",
                [list(f_0.shape), list(f.shape)], [N, M])
        integral(f, "f")
        integral(f_0, "f_0")
        cap = min(cfg["max_freq_mask"], F)
        for n in range(N):
            widths = [int(x) for x in f[n].tolist()]
            starts = [int(x) for x in f_0[n].tolist()]
            for m in range(M):
                require(0 <= widths[m] <= cap, "frequency mask width outside [0, min(max_freq_mask, F)] (n=%d)" % n, widths[m], cap)
                require(0 <= starts[m] and starts[m] + widths[m] <= F, "frequency mask not inside the coefficients (n=%d, F=%d)" % (n, F),
                        [starts[m], widths[m]], F)
            if any(widths):
                classes.add("freq_mask_positive")
            if any(x == cap for x in widths):
                classes.add("freq_mask_at_cap")
            if cfg["max_freq_mask"] > F:
                classes.add("freq_mask_limit_above_F")
    return classes


def _nontrivial(case, classes):
    lens = _eff_lengths(case)
    short = any(L < case["T"] for L in lens)
    masks = "time_mask_positive" in classes or "freq_mask_positive" in classes
    return (masks and short) or ("time_warp_limited_by_half_size" in classes)


# ------------------------------------------------------------------ strategies


def _limit(size_hint):
    """A limit from the classes {0, 1, small, > size/2, > size}."""
    return st.sampled_from([0, 1, 2, 3, max(2, size_hint // 2 + 1), size_hint + 1, size_hint + 5, 100])


def _prop():
    # 0 and the tiny proportion disable / empty the step; keep them present but not dominant
    return st.sampled_from(PROPS_DYADIC + PROPS_OTHER + [0.25, 0.5, 0.5, 0.75, 1.0, 1.0, 1.0, 1.0])


def _warp_limit(size_hint):
    return st.sampled_from([0.0, 0.5, 1.0, 1.5, 2.0, 3.0, float(size_hint // 2), size_hint / 2.0 + 0.5, float(size_hint), 80.0])


def _uniform_k():
    return st.one_of(st.sampled_from([0, 1, TWO24 // 2, TWO24 - 1, TWO24 - 2, TWO24 // 2 - 1]),
                     st.integers(0, TWO24 - 1))


@st.composite
def _shape(draw, tier, full_prob=3):
    big = tier == "thorough"
    N = draw(st.integers(1, 3))
    T = draw(st.one_of(st.integers(1, 12), st.integers(1, 12), st.integers(1, 64 if big else 40)))
    F = draw(st.one_of(st.integers(1, 6), st.integers(1, 12 if big else 6)))
    mode = draw(st.integers(0, full_prob + 1))
    if mode == 0:
        lengths = None
    elif mode == 1:
        lengths = [T] * N
    else:
        lengths = [draw(st.integers(1, T)) for _ in range(N)]
    return N, T, F, lengths


@st.composite
def _cfg(draw, T, F, warp=True, masks=True, order=False):
    cfg = {
        "max_time_warp": draw(_warp_limit(T)) if warp else 0.0,
        "max_freq_warp": draw(_warp_limit(F)) if warp else 0.0,
        "max_time_mask": draw(_limit(T)) if masks else 0,
        "max_freq_mask": draw(_limit(F)) if masks else 0,
        "max_time_mask_proportion": draw(_prop()) if masks else 0.0,
        "num_time_mask": draw(st.sampled_from([0, 1, 1, 2, 2, 3, 5])) if masks else 0,
        "num_time_mask_proportion": draw(_prop()) if masks else 0.0,
        "num_freq_mask": draw(st.sampled_from([0, 1, 2, 3])) if masks else 0,
        "interpolation_order": draw(st.integers(1, 3)) if order else 1,
    }
    return cfg


def _draw_strategy(injected):
    def strategy(tier):
        @st.composite
        def build(draw):
            N, T, F, lengths = draw(_shape(tier))
            case = {"N": N, "T": T, "F": F, "lengths": lengths, "cfg": draw(_cfg(T, F)),
                    "route": draw(st.sampled_from(["module", "functional"])),
                    "fa": draw(st.integers(1, 50)), "fb": draw(st.integers(0, 50))}
            if injected:
                case["script"] = draw(st.lists(_uniform_k(), min_size=1, max_size=24))
                case["seed"] = 0
            else:
                case["script"] = None
                case["seed"] = draw(st.one_of(st.integers(0, 20), st.integers(0, 2 ** 31 - 1)))
            return case

        return build()

    return strategy


def _draw_check(case):
    feats = _feats(case)
    lengths = _lengths(case)
    params = _draw(case, feats, lengths)
    classes = _check_draw(case, params)
    if case.get("lengths") is None:
        classes.add("lengths_omitted")
    if any(L < case["T"] for L in _eff_lengths(case)):
        classes.add("some_length_below_T")
    return Info(nontrivial=_nontrivial(case, classes), classes=sorted(classes))


subcheck("C08", "draw_bounds", _draw_strategy(False), 1500, 40000,
         doc="generated (N,T,F), lengths, limits from {0,1,small,>size/2,>size}, proportions incl. 0 and 1; real generator seeded from the case; every drawn tensor against the documented caps (exact rational arithmetic)",
         required_classes=["time_mask_positive", "freq_mask_positive", "time_warp_limited_by_half_size",
                           "time_mask_count_limited", "time_mask_width_limited_by_proportion", "some_length_below_T"])(_draw_check)

subcheck("C08", "draw_bounds_injected", _draw_strategy(True), 1500, 40000,
         doc="same oracle with torch.rand replaced by scripted uniforms k/2^24 biased to 0, 2^-24, 1/2, 1-2^-24",
         required_classes=["time_mask_positive", "freq_mask_positive", "time_mask_at_cap", "time_mask_touches_end",
                           "freq_mask_at_cap", "time_warp_limited_by_half_size"])(_draw_check)


# ------------------------------------------------------------------ masking is exact


def _mask_oracle(feats, t_0, t, f_0, f, on_time, on_freq):
    """Loop oracle: a copy of feats with the masked bands set to 0; returns (expected, n_masked_cells)."""
    N, T, F = feats.shape
    exp = feats.clone()
    cells = 0
    for n in range(N):
        rows, cols = set(), set()
        if on_time:
            for s, wd in zip(t_0[n], t[n]):
                rows.update(range(int(s), int(s) + int(wd)))
        if on_freq:
            for s, wd in zip(f_0[n], f[n]):
                cols.update(range(int(s), int(s) + int(wd)))
        for r in rows:
            if 0 <= r < T:
                exp[n, r, :] = 0
        for c in cols:
            if 0 <= c < F:
                exp[n, :, c] = 0
        cells += len([1 for r in range(T) for c in range(F) if r in rows or c in cols])
    return exp, cells


def _mask_strategy(tier):
    @st.composite
    def build(draw):
        N, T, F, lengths = draw(_shape(tier))
        source = draw(st.sampled_from(["drawn", "drawn", "generated"]))
        case = {"N": N, "T": T, "F": F, "lengths": lengths, "source": source,
                "route": draw(st.sampled_from(["module", "functional"])),
                "dtype": draw(st.sampled_from(["float32", "float32", "float64"])),
                "fa": draw(st.integers(1, 50)), "fb": draw(st.integers(0, 50)),
                "order": draw(st.integers(1, 3)),
                "empty_style": draw(st.sampled_from(["empty", "none"]))}
        if source == "drawn":
            case["cfg"] = draw(_cfg(T, F, warp=False))
            if draw(st.booleans()):
                case["script"] = draw(st.lists(_uniform_k(), min_size=1, max_size=16))
                case["seed"] = 0
            else:
                case["script"] = None
                case["seed"] = draw(st.integers(0, 2 ** 31 - 1))
        else:
            lens = lengths if lengths is not None else [T] * N
            mt = draw(st.integers(0, 3))
            mf = draw(st.integers(0, 3))
            tm, fm = [], []
            for n in range(N):
                row = []
                for _ in range(mt):
                    wd = draw(st.integers(0, lens[n]))
                    s0 = draw(st.integers(0, lens[n] - wd))
                    row.append([s0, wd])
                tm.append(row)
                row = []
                for _ in range(mf):
                    wd = draw(st.integers(0, F))
                    s0 = draw(st.integers(0, F - wd))
                    row.append([s0, wd])
                fm.append(row)
            case["time_masks"], case["freq_masks"] = tm, fm
        return case

    return build()


@subcheck("C08", "mask_exact", _mask_strategy, 1500, 40000,
          doc="apply_parameters with mask parameters only (drawn under seed / scripted uniforms, or generated inside their bounds): bitwise equal to a loop oracle - 0 on masked rows/columns, input elsewhere; float32 and float64",
          required_classes=["time_and_freq", "time_only", "freq_only", "some_length_below_T", "overlapping_masks"])
def _mask_check(case):
    import torch
    from pydrobert.torch.functional import spec_augment_apply_parameters

    feats = _feats(case)
    lengths = _lengths(case)
    N, T, F = feats.shape
    classes = set()
    if case["source"] == "drawn":
        params = _draw(case, feats, lengths)
        classes |= _check_draw(case, params)
        w_0, w, v_0, v, t_0, t, f_0, f = params
        require(w_0.numel() == 0 and w.numel() == 0 and v_0.numel() == 0 and v.numel() == 0,
                "warp disabled but warp parameters drawn", [w_0.tolist(), v_0.tolist()], "empty")
        order = case["cfg"].get("interpolation_order", 1)
    else:
        tm, fm = case["time_masks"], case["freq_masks"]
        mt, mf = len(tm[0]), len(fm[0])

        def none_or_empty():
            return None if case["empty_style"] == "none" else torch.empty(0)

        if mt:
            t_0 = torch.tensor([[m[0] for m in row] for row in tm], dtype=torch.long)
            t = torch.tensor([[m[1] for m in row] for row in tm], dtype=torch.long)
        else:
            t_0, t = none_or_empty(), none_or_empty()
        if mf:
            f_0 = torch.tensor([[m[0] for m in row] for row in fm], dtype=torch.long)
            f = torch.tensor([[m[1] for m in row] for row in fm], dtype=torch.long)
        else:
            f_0, f = none_or_empty(), none_or_empty()
        params = (none_or_empty(), none_or_empty(), none_or_empty(), none_or_empty(), t_0, t, f_0, f)
        order = case["order"]
    on_time = params[5] is not None and params[5].numel() > 0
    on_freq = params[7] is not None and params[7].numel() > 0
    before = feats.clone()
    if case["route"] == "module":
        m = _module(dict(case.get("cfg") or {k: 0 for k in CFG_KEYS}, interpolation_order=order))
        out = m.apply_parameters(feats, params, lengths) if lengths is not None else m.apply_parameters(feats, params)
    else:
        out = spec_augment_apply_parameters(feats, params, order, lengths)
    require(torch.equal(feats, before), "apply_parameters modified its input in place", None, None)
    require(tuple(out.shape) == (N, T, F), "output shape differs from input shape", list(out.shape), [N, T, F])
    require(out.dtype == feats.dtype, "output dtype differs from input dtype", str(out.dtype), str(feats.dtype))
    exp, cells = _mask_oracle(feats, params[4].tolist() if on_time else None, params[5].tolist() if on_time else None,
                              params[6].tolist() if on_freq else None, params[7].tolist() if on_freq else None,
                              on_time, on_freq)
    if not torch.equal(out, exp):
        bad = (out != exp).nonzero().tolist()[:6]
        require(False, "masked output differs from the loop oracle (0 on masked bands, input elsewhere) at %s" % bad,
                [out[tuple(i)].item() for i in bad], [exp[tuple(i)].item() for i in bad])
    tpos = on_time and bool((params[5] > 0).any())
    fpos = on_freq and bool((params[7] > 0).any())
    if tpos and fpos:
        classes.add("time_and_freq")
    elif tpos:
        classes.add("time_only")
    elif fpos:
        classes.add("freq_only")
    else:
        classes.add("no_mask")
    if on_time:
        for n in range(N):
            iv = [(int(a), int(a) + int(b)) for a, b in zip(params[4][n].tolist(), params[5][n].tolist()) if b > 0]
            if any(x[0] < y[1] and y[0] < x[1] for i, x in enumerate(iv) for y in iv[i + 1:]):
                classes.add("overlapping_masks")
    short = any(L < T for L in _eff_lengths(case))
    if short:
        classes.add("some_length_below_T")
    if case.get("dtype") == "float64":
        classes.add("float64")
    if cells == N * T * F and cells:
        classes.add("everything_masked")
    return Info(nontrivial=(tpos or fpos) and short, classes=sorted(classes))


# ------------------------------------------------------------------ linear time warp


def _frames(grid, T):
    return ((grid + 1) * T - 1) / 2


def _warp_strategy(tier):
    @st.composite
    def build(draw):
        N, T, F, lengths = draw(_shape(tier))
        cfg = draw(_cfg(T, F, warp=False, masks=False))
        lens = lengths if lengths is not None else [T] * N
        cfg["max_time_warp"] = draw(st.sampled_from(
            [0.5, 1.0, 1.5, 2.0, 3.0, max(0.5, float(T // 2)), T / 2.0 + 0.5, float(T), 80.0, max(0.5, min(lens) / 2.0)]))
        case = {"N": N, "T": T, "F": F, "lengths": lengths, "cfg": cfg,
                "route": draw(st.sampled_from(["module", "functional"]))}
        if draw(st.integers(0, 3)) == 0:
            case["script"] = draw(st.lists(_uniform_k(), min_size=1, max_size=8))
            case["seed"] = 0
        else:
            case["script"] = None
            case["seed"] = draw(st.one_of(st.integers(0, 50), st.integers(0, 2 ** 31 - 1)))
        return case

    return build()


def _linear_laws(pos, L, T, n, via):
    """pos: effective read positions (frames, clamped to the stored frames) of output frames 0..L-1."""
    import math

    require(all(math.isfinite(x) for x in pos), "linear warp (%s): non-finite read position (n=%d)" % (via, n), pos, None)
    require(abs(pos[0]) <= 0.5 + 1e-3, "linear warp (%s) does not begin within half a frame of frame 0 (n=%d, len=%d)" % (via, n, L),
            pos, 0)
    require(abs(pos[L - 1] - (L - 1)) <= 0.5 + 1e-3,
            "linear warp (%s) does not end within half a frame of the last valid frame (n=%d, len=%d)" % (via, n, L), pos, L - 1)
    for i in range(1, L):
        require(pos[i] - pos[i - 1] >= -1e-3, "linear warp (%s) reads the valid frames out of order (n=%d, len=%d, at frame %d)" % (via, n, L, i),
                pos, "non-decreasing")


@subcheck("C08", "linear_warp", _warp_strategy, 1500, 40000,
          doc="drawn time warps of order 1 (seeded generator, 1 in 4 scripted boundary uniforms): read positions over the valid frames via warp_1d_grid and via apply_parameters on a time ramp are non-decreasing (1e-3) and begin/end within half a frame of frames 0 / len-1",
          required_classes=["time_warp_limited_by_half_size", "some_length_below_T", "shifted_point_beyond_last_frame"])
def _warp_check(case):
    import torch
    from pydrobert.torch.functional import spec_augment_apply_parameters, warp_1d_grid

    N, T, F = case["N"], case["T"], case["F"]
    ramp = _feats(case, "ramp")
    lengths = _lengths(case)
    lens = _eff_lengths(case)
    params = _draw(case, ramp, lengths)
    classes = _check_draw(case, params)
    w_0, w = params[0], params[1]
    lt = torch.tensor(lens, dtype=torch.long)
    grid = warp_1d_grid(w_0, w, lt, T, 1)
    require(tuple(grid.shape) == (N, T), "warp_1d_grid shape", list(grid.shape), [N, T])
    pos_all = _frames(grid, T).clamp(0, T - 1)
    if case["route"] == "module":
        m = _module(case["cfg"])
        out = m.apply_parameters(ramp, params, lengths) if lengths is not None else m.apply_parameters(ramp, params)
    else:
        out = spec_augment_apply_parameters(ramp, params, 1, lengths)
    require(tuple(out.shape) == (N, T, F), "output shape differs from input shape", list(out.shape), [N, T, F])
    for n in range(N):
        L = lens[n]
        dst = float(w_0[n]) + float(w[n])
        if dst > L - 1:
            classes.add("shifted_point_beyond_last_frame")
        if dst >= L - 1 - 0.01 or dst <= 0.01:
            classes.add("shifted_point_within_0.01_of_an_end")
        _linear_laws([float(x) for x in pos_all[n, :L]], L, T, n, "warp_1d_grid")
        for f in range(F):
            _linear_laws([float(x) for x in out[n, :L, f]], L, T, n, "apply_parameters on a ramp")
    if any(L < T for L in lens):
        classes.add("some_length_below_T")
    if case.get("script") is not None:
        classes.add("scripted_uniforms")
    return Info(nontrivial="time_warp_limited_by_half_size" in classes, classes=sorted(classes))


# ------------------------------------------------------------------ warps of any order stay in range


def _range_strategy(tier):
    @st.composite
    def build(draw):
        N, T, F, lengths = draw(_shape(tier))
        cfg = draw(_cfg(T, F, warp=True, masks=draw(st.booleans()), order=True))
        which = draw(st.sampled_from(["time", "freq", "both"]))
        if which != "freq" and not cfg["max_time_warp"]:
            cfg["max_time_warp"] = 1.0
        if which != "time" and not cfg["max_freq_warp"]:
            cfg["max_freq_warp"] = 1.0
        if which == "time":
            cfg["max_freq_warp"] = 0.0
        if which == "freq":
            cfg["max_time_warp"] = 0.0
        case = {"N": N, "T": T, "F": F, "lengths": lengths, "cfg": cfg,
                "route": draw(st.sampled_from(["module", "functional"])),
                "fa": draw(st.integers(1, 50)), "fb": draw(st.integers(0, 50)),
                "signed": draw(st.booleans())}
        if draw(st.integers(0, 3)) == 0:
            case["script"] = draw(st.lists(_uniform_k(), min_size=1, max_size=16))
            case["seed"] = 0
        else:
            case["script"] = None
            case["seed"] = draw(st.integers(0, 2 ** 31 - 1))
        return case

    return build()


@subcheck("C08", "warp_range", _range_strategy, 1200, 30000,
          doc="time and/or frequency warp of order 1..3 with or without masks on distinct dyadic features: finite, inside [min, max] of that element's input (1e-5 relative), masked cells exactly 0, shape kept",
          required_classes=["order_1", "order_2", "order_3", "time_warp", "freq_warp", "with_masks"])
def _range_check(case):
    import torch
    from pydrobert.torch.functional import spec_augment_apply_parameters

    feats = _feats(case)
    lengths = _lengths(case)
    N, T, F = feats.shape
    cfg = case["cfg"]
    order = cfg["interpolation_order"]
    params = _draw(case, feats, lengths)
    classes = _check_draw(case, params)
    if case["route"] == "module":
        m = _module(cfg)
        out = m.apply_parameters(feats, params, lengths) if lengths is not None else m.apply_parameters(feats, params)
    else:
        out = spec_augment_apply_parameters(feats, params, order, lengths)
    require(tuple(out.shape) == (N, T, F), "output shape differs from input shape", list(out.shape), [N, T, F])
    require(bool(torch.isfinite(out).all()), "warp of order %d produced a non-finite value" % order,
            out[~torch.isfinite(out)][:4].tolist(), "finite")
    on_time = params[5].numel() > 0
    on_freq = params[7].numel() > 0
    _, cells = _mask_oracle(feats, params[4].tolist() if on_time else None, params[5].tolist() if on_time else None,
                            params[6].tolist() if on_freq else None, params[7].tolist() if on_freq else None, on_time, on_freq)
    zero_mask, _ = _mask_oracle(torch.ones_like(feats), params[4].tolist() if on_time else None,
                                params[5].tolist() if on_time else None, params[6].tolist() if on_freq else None,
                                params[7].tolist() if on_freq else None, on_time, on_freq)
    masked = zero_mask == 0
    require(bool((out[masked] == 0).all()), "masked cell is not exactly 0 after warping", out[masked][:4].tolist(), 0)
    for n in range(N):
        lo, hi = float(feats[n].min()), float(feats[n].max())
        tol = 1e-5 * max(abs(lo), abs(hi), 1.0)
        vals = out[n][~masked[n]]
        if vals.numel():
            mn, mx = float(vals.min()), float(vals.max())
            require(lo - tol <= mn and mx <= hi + tol, "warp of order %d left the range of the element's input (n=%d)" % (order, n),
                    [mn, mx], [lo, hi])
    classes.add("order_%d" % order)
    if cfg["max_time_warp"]:
        classes.add("time_warp")
    if cfg["max_freq_warp"]:
        classes.add("freq_warp")
    if cells:
        classes.add("with_masks")
    if any(L < T for L in _eff_lengths(case)):
        classes.add("some_length_below_T")
    return Info(nontrivial=_nontrivial(case, classes) or "freq_warp_limited_by_half_size" in classes, classes=sorted(classes))


# ------------------------------------------------------------------ call modes


def _call_strategy(tier):
    @st.composite
    def build(draw):
        N, T, F, lengths = draw(_shape(tier))
        return {"N": N, "T": T, "F": F, "lengths": lengths, "cfg": draw(_cfg(T, F, order=True)),
                "seed": draw(st.integers(0, 2 ** 31 - 1)), "script": None,
                "fa": draw(st.integers(1, 50)), "fb": draw(st.integers(0, 50))}

    return build()


@subcheck("C08", "call_modes", _call_strategy, 600, 15000,
          doc="eval mode (module and functional) returns the input unchanged; the training call equals apply_parameters(draw_parameters) under the same generator state; shape and dtype kept",
          required_classes=["train_changed_something"])
def _call_check(case):
    import torch
    from pydrobert.torch.functional import spec_augment

    feats = _feats(case)
    lengths = _lengths(case)
    cfg = case["cfg"]
    N, T, F = feats.shape
    before = feats.clone()
    m = _module(cfg)
    args = (feats,) if lengths is None else (feats, lengths)

    def fargs(training):
        return (feats, float(cfg["max_time_warp"]), float(cfg["max_freq_warp"]), cfg["max_time_mask"], cfg["max_freq_mask"],
                float(cfg["max_time_mask_proportion"]), cfg["num_time_mask"], float(cfg["num_time_mask_proportion"]),
                cfg["num_freq_mask"], cfg["interpolation_order"], lengths, training)

    m.eval()
    torch.manual_seed(case["seed"])
    out = m(*args)
    require(tuple(out.shape) == (N, T, F) and torch.equal(out, before), "eval mode changed the input", None, None)
    out_f = spec_augment(*fargs(False))
    require(tuple(out_f.shape) == (N, T, F) and torch.equal(out_f, before), "functional form with training=False changed the input", None, None)
    classes = set()
    if out is feats:
        classes.add("eval_returns_same_object")
    m.train()
    torch.manual_seed(case["seed"])
    got = m(*args)
    torch.manual_seed(case["seed"])
    params = m.draw_parameters(*args)
    classes |= _check_draw(case, params)
    exp = m.apply_parameters(feats, params, lengths) if lengths is not None else m.apply_parameters(feats, params)
    require(tuple(got.shape) == (N, T, F), "training output shape differs from input shape", list(got.shape), [N, T, F])
    require(got.dtype == feats.dtype, "training output dtype differs", str(got.dtype), str(feats.dtype))
    require(torch.equal(got, exp), "training call differs from apply_parameters(draw_parameters) under the same generator state",
            got.tolist(), exp.tolist())
    torch.manual_seed(case["seed"])
    got_f = spec_augment(*fargs(True))
    require(torch.equal(got_f, exp), "functional spec_augment differs from the module under the same generator state",
            got_f.tolist(), exp.tolist())
    require(torch.equal(feats, before), "the call modified its input in place", None, None)
    if not torch.equal(got, before):
        classes.add("train_changed_something")
    return Info(nontrivial=_nontrivial(case, classes), classes=sorted(classes))
