"""C08 SpecAugment draws stay within bounds and masking touches only masked cells.

Sub-checks (all on float32 features unless a class says otherwise):

* draw_bounds / draw_bounds_injected - every tensor returned by ``draw_parameters`` against
  the documented caps, computed with exact rational arithmetic; randomness either from the
  real generator (seed in the case) or from scripted uniforms k/2^24 biased to the ends of
  the generator's range.
* mask_exact - ``apply_parameters`` with mask parameters only (drawn, or generated inside
  their bounds): output is bit-identical to the input outside the masked bands, exactly 0
  inside (loop oracle).
* linear_warp - drawn time warps (order 1): effective read positions over the valid frames,
  observed both through ``warp_1d_grid`` and through ``apply_parameters`` on a time ramp,
  are non-decreasing and begin / end within half a frame of frames 0 / len-1.
* warp_range - any order, time and/or frequency warp with or without masks: finite, inside
  the range of the element's input, masked cells 0, shape kept.
* call_modes - eval mode returns the input unchanged; training call == apply(draw) under the
  same generator state (module and functional form); shape kept.

Generator classes added in the extension round (all sub-checks share them through ``_feats`` /
``_lengths`` / ``_shape``; the oracles are unchanged):

* memory layouts - the feature batch is handed over as a slice of a larger tensor (non-zero
  storage offset), as a permuted / transposed non-contiguous view, or as an every-other-element
  strided view; the length vector as a slice / strided / stride-0 expanded view; generated mask
  parameters as transposed / sliced views.
* sizes - one of T, N, F, num_time_mask, num_freq_mask is taken from the threshold list
  15..2049 (``THRESH``); features and lengths are then expanded deterministically from a few
  generated integers (pure function of the case).  Warps beyond 64 frames / coefficients are
  behind ``ENABLE_LONG_WARP`` (genuine defect, see meta/C08.json).
* values - non-finite or huge values in the padding frames past each length (no-warp paths
  only: a warp may legitimately read up to half a frame past the last valid frame), non-finite
  values in valid cells for the masking check (log-mel features of digital silence are -inf),
  features scaled by 2^+-60 / 2^+-100, constant features (ties) for the range check.
* call patterns - the same module object called before on another batch (train or eval mode),
  the same parameter tuple applied twice.
* size_grid - a deterministic list with one case per threshold and dimension for the check
  functions above (Hypothesis re-uses few distinct sizes per run).
"""
from __future__ import annotations

import os
from fractions import Fraction

from hypothesis import strategies as st

from ..core import Info, Reject, require, subcheck
from .. import fakes
from ..gen import weighted

TWO24 = 1 << 24
PRIME = 4099  # prime > any N*T*F of the small shapes (3 * 64 * 12)
BIG_PRIME = 1000003  # prime > any N*T*F of the threshold shapes; (BIG_PRIME + 1) / 8 is exact in float32

# sizes that cross typical implementation thresholds (block sizes, special paths)
THRESH = [15, 16, 17, 31, 32, 33, 63, 64, 65, 127, 128, 129, 255, 256, 257, 1023, 1024, 1025, 2049]

# Warps over more than 64 frames / coefficients: the float32 solve behind warp_1d_grid loses the
# pinned ends (T = 129: last valid frame read 0.9 frames off; T = 1025: 7 frames off and out of
# order).  Genuine defect (the statement quantifies over all T), recorded in
# replays/C08/linear_warp-long-T-*.json with the proposed repair fixes/C08-warp-grid-float64.diff.
# Until that is merged the class stays out of the default path; VERIF_C08_LONG_WARP=1 enables it.
ENABLE_LONG_WARP = True  # repaired in /repo by aaa1885
LONG_WARP_ABOVE = 64

FEAT_LAYOUTS = ["contig", "offset", "perm_tnf", "perm_nft", "strided"]
VEC_LAYOUTS = ["contig", "offset", "strided"]
PAD_FILLS = ["nan", "inf", "-inf", "huge", "mixed"]

# proportions: dyadic (len * p exact in float32) plus the default 0.04 and two others whose
# product with a length may round either way (handled by the ambiguity rule in _cap)
PROPS_DYADIC = [0.0, 1 / 1024, 0.125, 0.25, 0.5, 0.75, 1.0]
PROPS_OTHER = [0.04, 0.1, 0.3]


# ------------------------------------------------------------------ case -> tensors


def _relayout(x, layout):
    """The same values as ``x`` (3-D) in another memory layout; ``x`` itself is contiguous."""
    import torch

    if layout in (None, "contig"):
        return x
    N, T, F = x.shape
    if layout == "offset":  # interior of a larger tensor: storage offset and row strides differ
        big = torch.full((N + 2, T + 3, F + 2), 777.0, dtype=x.dtype)
        big[1:N + 1, 2:T + 2, 1:F + 1] = x
        out = big[1:N + 1, 2:T + 2, 1:F + 1]
    elif layout == "perm_tnf":  # stored time-major
        out = x.permute(1, 0, 2).contiguous().permute(1, 0, 2)
    elif layout == "perm_nft":  # stored coefficient-major
        out = x.transpose(1, 2).contiguous().transpose(1, 2)
    elif layout == "strided":  # every other frame and coefficient of a larger tensor
        big = torch.full((N, 2 * T + 1, 2 * F + 1), -555.0, dtype=x.dtype)
        big[:, 1::2, 1::2] = x
        out = big[:, 1::2, 1::2]
    else:
        raise AssertionError(layout)
    assert out.shape == x.shape and bool(((out == x) | (out != out)).all())
    return out


def _relayout_vec(x, layout, dim=0):
    """1-D (or 2-D along ``dim``) tensor with the same values, as a slice / strided / expanded view."""
    import torch

    if layout in (None, "contig") or x.numel() == 0:
        return x
    if layout == "transposed":  # 2-D only
        return x.t().contiguous().t()
    n = x.shape[dim]
    shape = list(x.shape)
    if layout == "offset":
        shape[dim] = n + 5
        big = torch.full(shape, 3, dtype=x.dtype)
        big.narrow(dim, 2, n).copy_(x)
        return big.narrow(dim, 2, n)
    if layout == "strided":
        shape[dim] = 3 * n + 1
        big = torch.full(shape, 1, dtype=x.dtype)
        view = big.narrow(dim, 1, 3 * n)[(slice(None),) * dim + (slice(None, None, 3),)]
        view.copy_(x)
        return view
    if layout == "expanded":  # stride 0: only when all entries are equal
        if x.dim() == 1 and bool((x == x[0]).all()):
            return x[:1].expand(n)
        return x
    raise AssertionError(layout)


def _feats(case, kind=None):
    """Distinct non-zero dyadic values (k/8, alternating sign), a time ramp, or a constant; optionally
    scaled by a power of two, with garbage past the lengths / in chosen cells, in the case's layout."""
    import torch

    N, T, F = case["N"], case["T"], case["F"]
    kind = kind or case.get("feat_kind", "distinct")
    dt = torch.float64 if case.get("dtype") == "float64" else torch.float32
    if kind == "ramp":
        x = torch.arange(T, dtype=torch.float32).view(1, T, 1).expand(N, T, F).contiguous()
        return _relayout(x, (case.get("layout") or {}).get("feats"))
    a, b = case.get("fa", 3), case.get("fb", 1)
    n = N * T * F
    if kind == "constant":
        x = torch.full((N, T, F), ((b % 40) + 1) / 8.0 * (-1 if a % 2 else 1), dtype=dt)
    elif n < PRIME:
        a = a % PRIME or 1
        vals = []
        for i in range(n):
            k = (a * i + b) % PRIME + 1  # distinct in 1..PRIME because a is a unit mod PRIME
            s = -1 if (case.get("signed", True) and k % 3 == 0) else 1
            vals.append(s * k / 8.0)
        x = torch.tensor(vals, dtype=dt).view(N, T, F)
    else:
        assert n < BIG_PRIME
        a = a % BIG_PRIME or 1
        k = (a * torch.arange(n, dtype=torch.int64) + b) % BIG_PRIME + 1
        sgn = torch.where((k % 3 == 0) & bool(case.get("signed", True)), -1, 1)
        x = ((sgn * k).to(torch.float64) / 8.0).to(dt).view(N, T, F)
    if case.get("scale_exp"):
        x = x * (2.0 ** case["scale_exp"])  # exact: power of two, no over- or underflow for |exp| <= 100
    fill = case.get("pad_fill")
    if fill:
        lens = _eff_lengths(case)
        for i in range(N):
            if lens[i] < T:
                x[i, lens[i]:] = _garbage(fill, T - lens[i], F, dt, i)
    for n_, t_, f_, knd in case.get("special_cells") or []:
        x[n_ % N, t_ % T, f_ % F] = {"nan": float("nan"), "inf": float("inf"), "-inf": float("-inf"), "huge": 3.0e38}[knd]
    return _relayout(x, (case.get("layout") or {}).get("feats"))


def _garbage(fill, rows, F, dt, salt):
    import torch

    vals = {"nan": [float("nan")], "inf": [float("inf")], "-inf": [float("-inf")], "huge": [3.0e38, -3.0e38],
            "mixed": [float("nan"), float("inf"), -3.0e38, float("-inf"), 3.0e38, 1e-30]}[fill]
    idx = (torch.arange(rows * F) + salt) % len(vals)
    return torch.tensor(vals, dtype=dt)[idx].view(rows, F)


def _same(a, b):
    """Bitwise-style equality that treats NaN as equal to NaN (shape, dtype and every value)."""
    return a.shape == b.shape and a.dtype == b.dtype and bool(((a == b) | ((a != a) & (b != b))).all())


def _len_list(case):
    """The case's lengths as a list of ints (None when omitted); rules expand deterministically."""
    spec = case.get("lengths")
    if spec is None or isinstance(spec, list):
        return None if spec is None else [int(x) for x in spec]
    N, T = case["N"], case["T"]
    a, b = spec["a"], spec["b"]
    if spec["rule"] == "mod":
        return [1 + (a * n + b) % T for n in range(N)]
    if spec["rule"] == "near":  # within 0..2 of T
        return [max(1, T - (a * n + b) % 3) for n in range(N)]
    cand = sorted({x for x in THRESH + [1, 2, T - 1, T] if 1 <= x <= T})  # "thresh"
    return [cand[(a * n + b) % len(cand)] for n in range(N)]


def _lengths(case):
    import torch

    lens = _len_list(case)
    if lens is None:
        return None
    return _relayout_vec(torch.tensor(lens, dtype=torch.long), (case.get("layout") or {}).get("lengths"))


def _eff_lengths(case):
    lens = _len_list(case)
    return [case["T"]] * case["N"] if lens is None else lens


def _layout_classes(case, classes):
    lay = case.get("layout") or {}
    for k in ("feats", "lengths", "params"):
        if lay.get(k) not in (None, "contig"):
            classes.add("%s_%s" % (k, lay[k]))
    if case.get("pad_fill") and any(L < case["T"] for L in _eff_lengths(case)):
        classes.add("garbage_past_length")
        classes.add("garbage_" + case["pad_fill"])
    if case.get("big"):
        classes.add("big_" + case["big"])
        size = {"T": case["T"], "N": case["N"], "F": case["F"], "MT": case["cfg"]["num_time_mask"] if case.get("cfg") else 0,
                "MF": case["cfg"]["num_freq_mask"] if case.get("cfg") else 0}[case["big"]]
        classes.add("size_ge_1023" if size >= 1023 else "size_ge_127" if size >= 127 else "size_15_65")
    if case.get("scale_exp"):
        classes.add("scaled_2^%d" % case["scale_exp"])


CFG_KEYS = ["max_time_warp", "max_freq_warp", "max_time_mask", "max_freq_mask", "max_time_mask_proportion",
            "num_time_mask", "num_time_mask_proportion", "num_freq_mask"]


def _module(cfg):
    from pydrobert.torch.modules import SpecAugment

    return SpecAugment(
        max_time_warp=float(cfg["max_time_warp"]), max_freq_warp=float(cfg["max_freq_warp"]),
        max_time_mask=cfg["max_time_mask"], max_freq_mask=cfg["max_freq_mask"],
        max_time_mask_proportion=float(cfg["max_time_mask_proportion"]), num_time_mask=cfg["num_time_mask"],
        num_time_mask_proportion=float(cfg["num_time_mask_proportion"]), num_freq_mask=cfg["num_freq_mask"],
        interpolation_order=cfg.get("interpolation_order", 1))


def _draw(case, feats, lengths):
    """Call draw_parameters through the route named in the case, with the case's randomness."""
    import contextlib

    import torch
    from pydrobert.torch.functional import spec_augment_draw_parameters

    cfg = case["cfg"]
    if case.get("script") is not None:
        ctx = fakes.scripted_uniform([k / TWO24 for k in case["script"]])
    else:
        ctx = contextlib.nullcontext()
        torch.manual_seed(case["seed"])
    with ctx:
        if case.get("route", "module") == "module":
            m = _module(cfg)
            params = m.draw_parameters(feats, lengths) if lengths is not None else m.draw_parameters(feats)
        else:
            params = spec_augment_draw_parameters(
                feats, float(cfg["max_time_warp"]), float(cfg["max_freq_warp"]), cfg["max_time_mask"],
                cfg["max_freq_mask"], float(cfg["max_time_mask_proportion"]), cfg["num_time_mask"],
                float(cfg["num_time_mask_proportion"]), cfg["num_freq_mask"], lengths)
    return params


# ------------------------------------------------------------------ oracle: bounds


def _cap(length, prop, absolute):
    """Largest admissible integer: min(absolute, int(prop * length)).

    Exact when prop * length is exact in binary floating point (dyadic proportions); for other
    proportions the product may round across an integer, so the bound is the larger of the two
    candidates (sound: never demands more than the documentation)."""
    x = Fraction(prop) * length
    hi = int(x * (1 + Fraction(1, 10 ** 6)))
    return min(absolute, hi)


def _check_draw(case, params):
    """Bounds of every drawn tensor. Returns the set of classes observed."""
    import torch

    cfg = case["cfg"]
    N, T, F = case["N"], case["T"], case["F"]
    lens = _eff_lengths(case)
    require(len(params) == 8, "draw_parameters must return 8 tensors", len(params), 8)
    w_0, w, v_0, v, t_0, t, f_0, f = params
    classes = set()

    def empty(x, name):
        require(x is not None and x.numel() == 0, "disabled step must return an empty tensor: " + name,
                None if x is None else list(x.shape), "numel 0")

    def warp(x0, x, limit, sizes, name):
        if not limit:
            empty(x0, name + "_0")
            empty(x, name)
            return
        require(tuple(x0.shape) == (N,) and tuple(x.shape) == (N,), name + " warp parameters must have shape (N,)",
                [list(x0.shape), list(x.shape)], [N])
        require(bool(torch.isfinite(x0).all()) and bool(torch.isfinite(x).all()), name + " warp parameters not finite",
                [x0.tolist(), x.tolist()], None)
        for n in range(N):
            size = sizes[n]
            W = min(float(limit), size / 2.0)
            # (the library shrinks the half-width by the machine epsilon of the feature dtype: 2^-10 for float16)
            tol = 1e-4 * size + (1e-3 if case.get("feat_dtype") == "float16" else 0.0)
            c, s = float(x0[n]), float(x[n])
            require(W - tol <= c <= size - W + tol, "%s warp centre outside [W, size - W] (n=%d, size=%d, W=%g)" % (name, n, size, W),
                    c, [W, size - W])
            require(abs(s) <= W + tol, "%s warp shift exceeds W (n=%d, size=%d, W=%g)" % (name, n, size, W), s, W)
            if float(limit) > size / 2.0:
                classes.add(name + "_warp_limited_by_half_size")
            if size == 1:
                classes.add(name + "_warp_size_1")

    warp(w_0, w, cfg["max_time_warp"], lens, "time")
    warp(v_0, v, cfg["max_freq_warp"], [F] * N, "freq")

    def integral(x, name):
        if x.dtype.is_floating_point:
            require(bool((x == x.round()).all()), name + " must hold integers", x.tolist(), None)

    tm_on = bool(cfg["max_time_mask"] and cfg["max_time_mask_proportion"] and cfg["num_time_mask"]
                 and cfg["num_time_mask_proportion"])
    if not tm_on:
        empty(t_0, "t_0")
        empty(t, "t")
    else:
        M = cfg["num_time_mask"]
        require(tuple(t_0.shape) == (N, M) and tuple(t.shape) == (N, M), "time mask parameters must have shape (N, num_time_mask)",
                [list(t_0.shape), list(t.shape)], [N, M])
        integral(t, "t")
        integral(t_0, "t_0")
        for n in range(N):
            L = lens[n]
            cap = _cap(L, cfg["max_time_mask_proportion"], cfg["max_time_mask"])
            ncap = _cap(L, cfg["num_time_mask_proportion"], cfg["num_time_mask"])
            widths = [int(x) for x in t[n].tolist()]
            starts = [int(x) for x in t_0[n].tolist()]
            for m in range(M):
                require(0 <= widths[m] <= cap, "time mask width outside [0, min(max_time_mask, int(prop*len))] (n=%d, len=%d)" % (n, L),
                        widths[m], cap)
                require(0 <= starts[m] and starts[m] + widths[m] <= L, "time mask not inside the valid frames (n=%d, len=%d)" % (n, L),
                        [starts[m], widths[m]], L)
            nz = sum(1 for x in widths if x > 0)
            require(nz <= ncap, "more time masks than min(num_time_mask, int(prop*len)) (n=%d, len=%d)" % (n, L), nz, ncap)
            if nz:
                classes.add("time_mask_positive")
            if any(x == cap and cap > 0 for x in widths):
                classes.add("time_mask_at_cap")
            if any(widths[m] > 0 and starts[m] + widths[m] == L for m in range(M)):
                classes.add("time_mask_touches_end")
            if ncap < M:
                classes.add("time_mask_count_limited")
            if cap < cfg["max_time_mask"]:
                classes.add("time_mask_width_limited_by_proportion")
            if nz == ncap and ncap > 0:
                classes.add("time_mask_count_at_cap")
    fm_on = bool(cfg["max_freq_mask"] and cfg["num_freq_mask"])
    if not fm_on:
        empty(f_0, "f_0")
        empty(f, "f")
    else:
        M = cfg["num_freq_mask"]
        require(tuple(f_0.shape) == (N, M) and tuple(f.shape) == (N, M), "frequency mask parameters must have shape (N, num_freq_mask)",
                [list(f_0.shape), list(f.shape)], [N, M])
        integral(f, "f")
        integral(f_0, "f_0")
        cap = min(cfg["max_freq_mask"], F)
        for n in range(N):
            widths = [int(x) for x in f[n].tolist()]
            starts = [int(x) for x in f_0[n].tolist()]
            for m in range(M):
                require(0 <= widths[m] <= cap, "frequency mask width outside [0, min(max_freq_mask, F)] (n=%d)" % n, widths[m], cap)
                require(0 <= starts[m] and starts[m] + widths[m] <= F, "frequency mask not inside the coefficients (n=%d, F=%d)" % (n, F),
                        [starts[m], widths[m]], F)
            if any(widths):
                classes.add("freq_mask_positive")
            if any(x == cap for x in widths):
                classes.add("freq_mask_at_cap")
            if cfg["max_freq_mask"] > F:
                classes.add("freq_mask_limit_above_F")
    return classes


def _nontrivial(case, classes):
    lens = _eff_lengths(case)
    short = any(L < case["T"] for L in lens)
    masks = "time_mask_positive" in classes or "freq_mask_positive" in classes
    return (masks and short) or ("time_warp_limited_by_half_size" in classes)


# ------------------------------------------------------------------ strategies


def _limit(size_hint):
    """A limit from the classes {0, 1, small, > size/2, > size}."""
    return st.sampled_from([0, 1, 2, 3, max(2, size_hint // 2 + 1), size_hint + 1, size_hint + 5, 100])


def _prop():
    # 0 and the tiny proportion disable / empty the step; keep them present but not dominant
    return st.sampled_from(PROPS_DYADIC + PROPS_OTHER + [0.25, 0.5, 0.5, 0.75, 1.0, 1.0, 1.0, 1.0])


def _warp_limit(size_hint):
    return st.sampled_from([0.0, 0.5, 1.0, 1.5, 2.0, 3.0, float(size_hint // 2), size_hint / 2.0 + 0.5, float(size_hint), 80.0])


def _uniform_k():
    return st.one_of(st.sampled_from([0, 1, TWO24 // 2, TWO24 - 1, TWO24 - 2, TWO24 // 2 - 1]),
                     st.integers(0, TWO24 - 1))


@st.composite
def _shape(draw, tier, full_prob=3):
    big = tier == "thorough"
    N = draw(st.integers(1, 3))
    T = draw(st.one_of(st.integers(1, 12), st.integers(1, 12), st.integers(1, 64 if big else 40)))
    F = draw(st.one_of(st.integers(1, 6), st.integers(1, 12 if big else 6)))
    mode = draw(st.integers(0, full_prob + 1))
    if mode == 0:
        lengths = None
    elif mode == 1:
        lengths = [T] * N
    else:
        lengths = [draw(st.integers(1, T)) for _ in range(N)]
    return N, T, F, lengths


_K = st.integers(0, 1 << 16)  # drawn FIRST in _base (see _thresh)


def _thresh(k, limit):
    """The threshold selected by the integer k (the very first choice of the case).

    Hypothesis often completes a random prefix of choices with the simplest values for all later ones, and
    sampled_from / small ranges lean to their first elements: a size drawn late collapses onto the smallest
    thresholds for whole runs.  Drawn first, and scrambled, k spreads over the list; k = 0 is still the smallest
    size, so shrinking works."""
    xs = [x for x in THRESH if x <= limit]
    xs = xs + [x for x in xs if x >= 1023] * 2
    return st.just(xs[(k * 40503 + k // 7) % len(xs)])


@st.composite
def _base(draw, tier, big_dims=(), big_weight=1, garbage=False, layouts=True):
    """Shape, lengths, memory layouts (and garbage past the lengths) of one case.

    With probability big_weight/6 one dimension named in ``big_dims`` is taken from THRESH; the lengths
    are then a rule expanded deterministically by ``_len_list``.  "MT" / "MF" (number of masks) are applied
    to the configuration by ``_apply_big_cfg``."""
    thorough = tier == "thorough"
    k = draw(_K)
    big = None
    if big_dims and draw(st.integers(0, 5)) < big_weight:
        big = draw(st.sampled_from(list(big_dims) + (["T"] if "T" in big_dims else [])))
    if big is None:
        N, T, F, lengths = draw(_shape(tier))
    else:
        N, T, F = draw(st.integers(1, 2)), draw(st.integers(1, 6)), draw(st.integers(1, 3))
        if big == "T":
            T = draw(_thresh(k, 2049))
        elif big == "N":
            N = draw(_thresh(k, 1025 if thorough else 257))
        elif big == "F":
            F = draw(_thresh(k, 1025 if thorough else 257))
        elif big == "MT":
            T = draw(_thresh(k, 257))  # long enough for the proportional count cap to admit many masks
        mode = draw(st.sampled_from(["none", "full", "mod", "near", "thresh", "thresh"]))
        if mode == "none":
            lengths = None
        elif mode == "full":
            lengths = {"rule": "near", "a": 0, "b": 0}
        else:
            lengths = {"rule": mode, "a": draw(st.integers(0, 40)), "b": draw(st.integers(0, 2100))}
    case = {"N": N, "T": T, "F": F, "lengths": lengths}
    if big:
        case["big"] = big
        if big in ("MT", "MF"):
            case["big_count"] = draw(_thresh(k // 3 + 1, 1025 if thorough else 257))
    if layouts:
        lens = _len_list(case)
        vec = VEC_LAYOUTS + (["expanded", "expanded"] if lens is not None and len(set(lens)) == 1 and N > 1 else [])
        case["layout"] = {
            "feats": draw(weighted((4, st.just("contig")), (4, st.sampled_from(FEAT_LAYOUTS[1:])))),
            "lengths": draw(weighted((3, st.just("contig")), (2, st.sampled_from(vec[1:])))),
        }
    if garbage and draw(st.integers(0, 2)) == 0:
        case["pad_fill"] = draw(st.sampled_from(PAD_FILLS))
    return case


def _apply_big_cfg(case):
    """Number-of-masks thresholds: the proportional count cap is lifted so that the absolute one is reached."""
    if case.get("big") == "MT":
        case["cfg"]["num_time_mask"] = case["big_count"]
    elif case.get("big") == "MF":
        case["cfg"]["num_freq_mask"] = case["big_count"]
    return case


def _long_warp(case):
    cfg = case["cfg"]
    return bool((cfg["max_time_warp"] and case["T"] > LONG_WARP_ABOVE) or (cfg["max_freq_warp"] and case["F"] > LONG_WARP_ABOVE))


def _no_long_warp(case):
    """Unless ENABLE_LONG_WARP: switch the warps over more than 64 frames / coefficients off."""
    if not ENABLE_LONG_WARP:
        if case["T"] > LONG_WARP_ABOVE:
            case["cfg"]["max_time_warp"] = 0.0
        if case["F"] > LONG_WARP_ABOVE:
            case["cfg"]["max_freq_warp"] = 0.0
    return case


@st.composite
def _cfg(draw, T, F, warp=True, masks=True, order=False):
    cfg = {
        "max_time_warp": draw(_warp_limit(T)) if warp else 0.0,
        "max_freq_warp": draw(_warp_limit(F)) if warp else 0.0,
        "max_time_mask": draw(_limit(T)) if masks else 0,
        "max_freq_mask": draw(_limit(F)) if masks else 0,
        "max_time_mask_proportion": draw(_prop()) if masks else 0.0,
        "num_time_mask": draw(st.sampled_from([0, 1, 1, 2, 2, 3, 5])) if masks else 0,
        "num_time_mask_proportion": draw(_prop()) if masks else 0.0,
        "num_freq_mask": draw(st.sampled_from([0, 1, 2, 3])) if masks else 0,
        "interpolation_order": draw(st.integers(1, 3)) if order else 1,
    }
    return cfg


def _draw_strategy(injected):
    def strategy(tier):
        @st.composite
        def build(draw):
            case = draw(_base(tier, big_dims=("T", "N", "F", "MT", "MF"), garbage=True))
            # the drawn parameters must not depend on the precision of the features: half-precision features with
            # lengths that half precision cannot represent (above 2048)
            # (bfloat16 features are rejected by the library with a RuntimeError: not generated)
            fd = draw(weighted((5, st.just("float32")), (2, st.just("float16"))))
            if fd != "float32":
                case["feat_dtype"] = fd
                if fd == "float16" and case.get("big") == "T":
                    case["T"] = draw(st.sampled_from([2051, 2055, 4099]))
            case.update({"cfg": draw(_cfg(case["T"], case["F"])),
                         "route": draw(st.sampled_from(["module", "functional"])),
                         "fa": draw(st.integers(1, 50)), "fb": draw(st.integers(0, 50))})
            _apply_big_cfg(case)
            if injected:
                case["script"] = draw(st.lists(_uniform_k(), min_size=1, max_size=24))
                case["seed"] = 0
            else:
                case["script"] = None
                case["seed"] = draw(st.one_of(st.integers(0, 20), st.integers(0, 2 ** 31 - 1)))
            return case

        return build()

    return strategy


def _draw_check(case):
    import torch

    feats = _feats(case)
    lengths = _lengths(case)
    if case.get("feat_dtype"):
        feats = feats.to(getattr(torch, case["feat_dtype"]))
    params = _draw(case, feats, lengths)
    classes = _check_draw(case, params)
    if case.get("feat_dtype"):
        classes.add("feats_" + case["feat_dtype"])
        if any(L > 2048 and float(torch.tensor(float(L)).to(feats.dtype)) > L for L in _eff_lengths(case)):
            classes.add("length_rounds_up_in_feature_precision")
    if case.get("lengths") is None:
        classes.add("lengths_omitted")
    if any(L < case["T"] for L in _eff_lengths(case)):
        classes.add("some_length_below_T")
    _layout_classes(case, classes)
    return Info(nontrivial=_nontrivial(case, classes), classes=sorted(classes))


subcheck("C08", "draw_bounds", _draw_strategy(False), 1500, 40000,
         doc="generated (N,T,F), lengths, limits from {0,1,small,>size/2,>size}, proportions incl. 0 and 1; real generator seeded from the case; every drawn tensor against the documented caps (exact rational arithmetic); 1 case in 6 takes T, N, F or a number of masks from the thresholds 15..2049; features / lengths also as offset, permuted, strided, expanded views; non-finite or huge garbage past the lengths; 2 cases in 7 with float16 features (T up to 4099) whose lengths the feature precision cannot represent",
         required_classes=["time_mask_positive", "freq_mask_positive", "time_warp_limited_by_half_size",
                           "time_mask_count_limited", "time_mask_width_limited_by_proportion", "some_length_below_T",
                           "big_T", "big_N", "big_F", "big_MT", "big_MF", "feats_offset", "feats_strided",
                           "lengths_offset", "lengths_strided", "garbage_past_length", "feats_float16",
                           "length_rounds_up_in_feature_precision"])(_draw_check)

subcheck("C08", "draw_bounds_injected", _draw_strategy(True), 1500, 40000,
         doc="same oracle with torch.rand replaced by scripted uniforms k/2^24 biased to 0, 2^-24, 1/2, 1-2^-24",
         required_classes=["time_mask_positive", "freq_mask_positive", "time_mask_at_cap", "time_mask_touches_end",
                           "freq_mask_at_cap", "time_warp_limited_by_half_size", "big_T", "big_N", "big_MT",
                           "lengths_strided", "garbage_past_length", "length_rounds_up_in_feature_precision"])(_draw_check)


# ------------------------------------------------------------------ masking is exact


def _mask_oracle(feats, t_0, t, f_0, f, on_time, on_freq):
    """Loop oracle: a copy of feats with the masked bands set to 0; returns (expected, n_masked_cells)."""
    N, T, F = feats.shape
    exp = feats.clone()
    cells = 0
    for n in range(N):
        rows, cols = set(), set()
        if on_time:
            for s, wd in zip(t_0[n], t[n]):
                rows.update(range(int(s), int(s) + int(wd)))
        if on_freq:
            for s, wd in zip(f_0[n], f[n]):
                cols.update(range(int(s), int(s) + int(wd)))
        for r in rows:
            if 0 <= r < T:
                exp[n, r, :] = 0
        for c in cols:
            if 0 <= c < F:
                exp[n, :, c] = 0
        cells += len([1 for r in range(T) for c in range(F) if r in rows or c in cols])
    return exp, cells


def _mask_strategy(tier):
    @st.composite
    def build(draw):
        case = draw(_base(tier, big_dims=("T", "N", "F", "MT", "MF"), garbage=True))
        N, T, F = case["N"], case["T"], case["F"]
        source = draw(st.sampled_from(["drawn", "drawn", "generated"]))
        if case.get("big") in ("MT", "MF"):
            source = "drawn"
        case.update({"source": source,
                     "route": draw(st.sampled_from(["module", "functional"])),
                     "dtype": draw(st.sampled_from(["float32", "float32", "float64"])),
                     "fa": draw(st.integers(1, 50)), "fb": draw(st.integers(0, 50)),
                     "order": draw(st.integers(1, 3)),
                     "empty_style": draw(st.sampled_from(["empty", "none"]))})
        if draw(st.integers(0, 3)) == 0:
            # non-finite / huge values in (possibly valid, possibly masked) cells: log-mel features of
            # digital silence are -inf; masking must give exactly 0 there and leave the others alone
            case["special_cells"] = draw(st.lists(
                st.tuples(st.integers(0, 2), st.integers(0, 70), st.integers(0, 12),
                          st.sampled_from(["-inf", "-inf", "inf", "nan", "huge"])).map(list), min_size=1, max_size=6))
        if draw(st.integers(0, 4)) == 0:
            case["scale_exp"] = draw(st.sampled_from([60, -60, 100, -100]))
        if source == "drawn":
            case["cfg"] = draw(_cfg(T, F, warp=False))
            _apply_big_cfg(case)
            if draw(st.booleans()):
                case["script"] = draw(st.lists(_uniform_k(), min_size=1, max_size=16))
                case["seed"] = 0
            else:
                case["script"] = None
                case["seed"] = draw(st.integers(0, 2 ** 31 - 1))
        else:
            lens = _eff_lengths(case)
            mt = draw(st.integers(0, 3))
            mf = draw(st.integers(0, 3))
            if N <= 4:
                tm, fm = [], []
                for n in range(N):
                    row = []
                    for _ in range(mt):
                        wd = draw(st.integers(0, lens[n]))
                        s0 = draw(st.integers(0, lens[n] - wd))
                        row.append([s0, wd])
                    tm.append(row)
                    row = []
                    for _ in range(mf):
                        wd = draw(st.integers(0, F))
                        s0 = draw(st.integers(0, F - wd))
                        row.append([s0, wd])
                    fm.append(row)
                case["time_masks"], case["freq_masks"] = tm, fm
            else:
                # wide batch: masks expanded deterministically from a few integers by _expand_masks
                case["mask_rule"] = {"mt": mt, "mf": mf, "a": draw(st.integers(0, 50)), "b": draw(st.integers(0, 50))}
            case["layout"]["params"] = draw(st.sampled_from(["contig", "contig", "transposed", "offset", "strided"]))
        return case

    return build()


def _expand_masks(case):
    """[start, width] per element and mask, inside the element's valid frames / the coefficients."""
    if "time_masks" in case:
        return case["time_masks"], case["freq_masks"]
    r, lens, F = case["mask_rule"], _eff_lengths(case), case["F"]
    tm, fm = [], []
    for n in range(case["N"]):
        row = []
        for m in range(r["mt"]):
            wd = (r["a"] * (n + 1) + 7 * m + r["b"]) % (lens[n] + 1)
            row.append([(r["b"] * (n + 2) + 3 * m + r["a"]) % (lens[n] - wd + 1), wd])
        tm.append(row)
        row = []
        for m in range(r["mf"]):
            wd = (r["b"] * (n + 1) + 5 * m + r["a"]) % (F + 1)
            row.append([(r["a"] * (n + 3) + m + r["b"]) % (F - wd + 1), wd])
        fm.append(row)
    return tm, fm


@subcheck("C08", "mask_exact", _mask_strategy, 1500, 40000,
          doc="apply_parameters with mask parameters only (drawn under seed / scripted uniforms, or generated inside their bounds): bitwise equal (NaN == NaN) to a loop oracle - 0 on masked rows/columns, input elsewhere; float32 and float64; thresholds 15..2049 for T, N, F and the number of masks; offset / permuted / strided views of features, lengths and mask parameters; non-finite garbage past the lengths and non-finite values in valid cells; the same parameter tuple applied twice",
          required_classes=["time_and_freq", "time_only", "freq_only", "some_length_below_T", "overlapping_masks",
                            "big_T", "big_N", "big_F", "big_MT", "big_MF",
                            "feats_offset", "feats_perm_tnf", "feats_perm_nft", "feats_strided", "lengths_offset", "lengths_strided",
                            "params_transposed", "params_offset", "params_strided",
                            "garbage_past_length", "non_finite_cell_masked", "non_finite_cell_kept"])
def _mask_check(case):
    import torch
    from pydrobert.torch.functional import spec_augment_apply_parameters

    feats = _feats(case)
    lengths = _lengths(case)
    N, T, F = feats.shape
    classes = set()
    if case["source"] == "drawn":
        params = _draw(case, feats, lengths)
        classes |= _check_draw(case, params)
        w_0, w, v_0, v, t_0, t, f_0, f = params
        require(w_0.numel() == 0 and w.numel() == 0 and v_0.numel() == 0 and v.numel() == 0,
                "warp disabled but warp parameters drawn", [w_0.tolist(), v_0.tolist()], "empty")
        order = case["cfg"].get("interpolation_order", 1)
    else:
        tm, fm = _expand_masks(case)
        mt, mf = len(tm[0]), len(fm[0])
        play = (case.get("layout") or {}).get("params")

        def none_or_empty():
            return None if case["empty_style"] == "none" else torch.empty(0)

        def par(rows, k):
            return _relayout_vec(torch.tensor([[m[k] for m in row] for row in rows], dtype=torch.long), play, dim=1)

        if mt:
            t_0, t = par(tm, 0), par(tm, 1)
        else:
            t_0, t = none_or_empty(), none_or_empty()
        if mf:
            f_0, f = par(fm, 0), par(fm, 1)
        else:
            f_0, f = none_or_empty(), none_or_empty()
        params = (none_or_empty(), none_or_empty(), none_or_empty(), none_or_empty(), t_0, t, f_0, f)
        order = case["order"]
    on_time = params[5] is not None and params[5].numel() > 0
    on_freq = params[7] is not None and params[7].numel() > 0
    before = feats.clone()
    params_before = [None if x is None else x.clone() for x in params]
    if case["route"] == "module":
        m = _module(dict(case.get("cfg") or {k: 0 for k in CFG_KEYS}, interpolation_order=order))

        def apply():
            return m.apply_parameters(feats, params, lengths) if lengths is not None else m.apply_parameters(feats, params)
    else:
        def apply():
            return spec_augment_apply_parameters(feats, params, order, lengths)
    out = apply()
    require(_same(feats, before), "apply_parameters modified its input in place", None, None)
    require(tuple(out.shape) == (N, T, F), "output shape differs from input shape", list(out.shape), [N, T, F])
    require(out.dtype == feats.dtype, "output dtype differs from input dtype", str(out.dtype), str(feats.dtype))
    exp, cells = _mask_oracle(feats, params[4].tolist() if on_time else None, params[5].tolist() if on_time else None,
                              params[6].tolist() if on_freq else None, params[7].tolist() if on_freq else None,
                              on_time, on_freq)
    if not _same(out, exp):
        bad = (~((out == exp) | ((out != out) & (exp != exp)))).nonzero().tolist()[:6]
        require(False, "masked output differs from the loop oracle (0 on masked bands, input elsewhere) at %s" % bad,
                [out[tuple(i)].item() for i in bad], [exp[tuple(i)].item() for i in bad])
    # call pattern: the same parameter tuple applied a second time (e.g. to a second feature stream)
    out2 = apply()
    require(_same(out2, exp), "applying the same parameter tuple a second time gives a different result", None, None)
    for x, y in zip(params, params_before):
        require(x is None or torch.equal(x, y), "apply_parameters modified a parameter tensor in place",
                None if x is None else x.tolist()[:8], None if y is None else y.tolist()[:8])
    tpos = on_time and bool((params[5] > 0).any())
    fpos = on_freq and bool((params[7] > 0).any())
    if tpos and fpos:
        classes.add("time_and_freq")
    elif tpos:
        classes.add("time_only")
    elif fpos:
        classes.add("freq_only")
    else:
        classes.add("no_mask")
    if on_time:
        for n in range(min(N, 8)):
            iv = [(int(a), int(a) + int(b)) for a, b in zip(params[4][n].tolist(), params[5][n].tolist()) if b > 0][:12]
            if any(x[0] < y[1] and y[0] < x[1] for i, x in enumerate(iv) for y in iv[i + 1:]):
                classes.add("overlapping_masks")
    short = any(L < T for L in _eff_lengths(case))
    if short:
        classes.add("some_length_below_T")
    if case.get("dtype") == "float64":
        classes.add("float64")
    if cells == N * T * F and cells:
        classes.add("everything_masked")
    nonfinite = ~torch.isfinite(before)
    if case.get("special_cells"):
        if bool((nonfinite & (exp == 0)).any()):
            classes.add("non_finite_cell_masked")
        if bool((nonfinite & (exp != 0)).any()):
            classes.add("non_finite_cell_kept")
    _layout_classes(case, classes)
    return Info(nontrivial=(tpos or fpos) and short, classes=sorted(classes))


# ------------------------------------------------------------------ linear time warp


def _frames(grid, T):
    return ((grid + 1) * T - 1) / 2


def _warp_dims():
    """Dimensions that may be taken from THRESH under a warp: the batch always, T and F only behind the switch."""
    return ("N", "T", "T", "F") if ENABLE_LONG_WARP else ("N",)


def _warp_strategy(tier):
    @st.composite
    def build(draw):
        case = draw(_base(tier, big_dims=_warp_dims(), big_weight=2 if ENABLE_LONG_WARP else 1))
        N, T, F = case["N"], case["T"], case["F"]
        if case.get("big") == "F":
            case["F"] = F = draw(st.integers(1, 3))  # the linear laws are about time; keep the ramp small
        cfg = draw(_cfg(T, F, warp=False, masks=False))
        lens = _eff_lengths(case)
        cfg["max_time_warp"] = draw(st.sampled_from(
            [0.5, 1.0, 1.5, 2.0, 3.0, max(0.5, float(T // 2)), T / 2.0 + 0.5, float(T), 80.0, max(0.5, min(lens) / 2.0)]))
        case.update({"cfg": cfg, "route": draw(st.sampled_from(["module", "functional"]))})
        case["layout"]["params"] = draw(st.sampled_from(["contig", "contig", "offset", "strided"]))
        if draw(st.integers(0, 3)) == 0:
            case["script"] = draw(st.lists(_uniform_k(), min_size=1, max_size=8))
            case["seed"] = 0
        else:
            case["script"] = None
            case["seed"] = draw(st.one_of(st.integers(0, 50), st.integers(0, 2 ** 31 - 1)))
        return case

    return build()


def _linear_laws(pos, L, T, n, via):
    """pos: effective read positions (frames, clamped to the stored frames) of output frames 0..L-1."""
    import math

    require(all(math.isfinite(x) for x in pos), "linear warp (%s): non-finite read position (n=%d)" % (via, n), pos, None)
    require(abs(pos[0]) <= 0.5 + 1e-3, "linear warp (%s) does not begin within half a frame of frame 0 (n=%d, len=%d)" % (via, n, L),
            pos, 0)
    require(abs(pos[L - 1] - (L - 1)) <= 0.5 + 1e-3,
            "linear warp (%s) does not end within half a frame of the last valid frame (n=%d, len=%d)" % (via, n, L), pos, L - 1)
    for i in range(1, L):
        require(pos[i] - pos[i - 1] >= -1e-3, "linear warp (%s) reads the valid frames out of order (n=%d, len=%d, at frame %d)" % (via, n, L, i),
                pos, "non-decreasing")


@subcheck("C08", "linear_warp", _warp_strategy, 1500, 40000,
          doc="drawn time warps of order 1 (seeded generator, 1 in 4 scripted boundary uniforms): read positions over the valid frames via warp_1d_grid and via apply_parameters on a time ramp are non-decreasing (1e-3) and begin/end within half a frame of frames 0 / len-1; batches of 15..257 (1025) elements; ramp, lengths and the drawn warp parameters also as offset / permuted / strided views; T from 65 to 2049 only behind ENABLE_LONG_WARP",
          required_classes=["time_warp_limited_by_half_size", "some_length_below_T", "shifted_point_beyond_last_frame",
                            "big_N", "feats_offset", "feats_perm_tnf", "feats_strided", "lengths_strided", "params_offset", "params_strided"]
          + (["big_T"] if ENABLE_LONG_WARP else []))
def _warp_check(case):
    import torch
    from pydrobert.torch.functional import spec_augment_apply_parameters, warp_1d_grid

    if _long_warp(case) and not ENABLE_LONG_WARP:
        raise Reject("warps over more than %d frames are behind ENABLE_LONG_WARP" % LONG_WARP_ABOVE)
    N, T, F = case["N"], case["T"], case["F"]
    ramp = _feats(case, "ramp")
    lengths = _lengths(case)
    lens = _eff_lengths(case)
    params = _draw(case, ramp, lengths)
    classes = _check_draw(case, params)
    play = (case.get("layout") or {}).get("params")
    if play not in (None, "contig"):
        # the drawn warp parameters handed on as views of larger tensors
        params = tuple(_relayout_vec(x, play) if i < 2 else x for i, x in enumerate(params))
    w_0, w = params[0], params[1]
    lt = _relayout_vec(torch.tensor(lens, dtype=torch.long), (case.get("layout") or {}).get("lengths"))
    grid = warp_1d_grid(w_0, w, lt, T, 1)
    require(tuple(grid.shape) == (N, T), "warp_1d_grid shape", list(grid.shape), [N, T])
    pos_all = _frames(grid, T).clamp(0, T - 1)
    if case["route"] == "module":
        m = _module(case["cfg"])
        out = m.apply_parameters(ramp, params, lengths) if lengths is not None else m.apply_parameters(ramp, params)
    else:
        out = spec_augment_apply_parameters(ramp, params, 1, lengths)
    require(tuple(out.shape) == (N, T, F), "output shape differs from input shape", list(out.shape), [N, T, F])
    pos_l, out_l = pos_all.tolist(), out.permute(0, 2, 1).tolist()
    for n in range(N):
        L = lens[n]
        dst = float(w_0[n]) + float(w[n])
        if dst > L - 1:
            classes.add("shifted_point_beyond_last_frame")
        if dst >= L - 1 - 0.01 or dst <= 0.01:
            classes.add("shifted_point_within_0.01_of_an_end")
        _linear_laws(pos_l[n][:L], L, T, n, "warp_1d_grid")
        for f in range(F):
            _linear_laws(out_l[n][f][:L], L, T, n, "apply_parameters on a ramp")
    if any(L < T for L in lens):
        classes.add("some_length_below_T")
    if case.get("script") is not None:
        classes.add("scripted_uniforms")
    _layout_classes(case, classes)
    return Info(nontrivial="time_warp_limited_by_half_size" in classes, classes=sorted(classes))


# ------------------------------------------------------------------ warps of any order stay in range


def _range_strategy(tier):
    @st.composite
    def build(draw):
        case = draw(_base(tier, big_dims=_warp_dims(), big_weight=2 if ENABLE_LONG_WARP else 1))
        T, F = case["T"], case["F"]
        cfg = draw(_cfg(T, F, warp=True, masks=draw(st.booleans()), order=True))
        which = draw(st.sampled_from(["time", "freq", "both"]))
        if which != "freq" and not cfg["max_time_warp"]:
            cfg["max_time_warp"] = 1.0
        if which != "time" and not cfg["max_freq_warp"]:
            cfg["max_freq_warp"] = 1.0
        if which == "time":
            cfg["max_freq_warp"] = 0.0
        if which == "freq":
            cfg["max_time_warp"] = 0.0
        case.update({"cfg": cfg,
                     "route": draw(st.sampled_from(["module", "functional"])),
                     "fa": draw(st.integers(1, 50)), "fb": draw(st.integers(0, 50)),
                     "signed": draw(st.booleans())})
        vk = draw(st.integers(0, 7))
        if vk == 0:
            case["feat_kind"] = "constant"  # ties: the range is a single value
        elif vk == 1:
            case["scale_exp"] = draw(st.sampled_from([60, -60, 100, -100]))
        if draw(st.integers(0, 3)) == 0:
            case["script"] = draw(st.lists(_uniform_k(), min_size=1, max_size=16))
            case["seed"] = 0
        else:
            case["script"] = None
            case["seed"] = draw(st.integers(0, 2 ** 31 - 1))
        return case

    return build()


@subcheck("C08", "warp_range", _range_strategy, 1200, 30000,
          doc="time and/or frequency warp of order 1..3 with or without masks on distinct dyadic features (1 in 8 constant, 1 in 8 scaled by 2^+-60 / 2^+-100): finite, inside [min, max] of that element's input (1e-5 relative), masked cells exactly 0, shape kept; batches of 15..257 (1025) elements; offset / permuted / strided views; T, F from 65 to 2049 only behind ENABLE_LONG_WARP",
          required_classes=["order_1", "order_2", "order_3", "time_warp", "freq_warp", "with_masks", "big_N",
                            "feats_offset", "feats_perm_tnf", "feats_perm_nft", "feats_strided", "lengths_offset",
                            "constant_features", "scaled_2^100", "scaled_2^-100"]
          + (["big_T", "big_F"] if ENABLE_LONG_WARP else []))
def _range_check(case):
    import torch
    from pydrobert.torch.functional import spec_augment_apply_parameters

    if _long_warp(case) and not ENABLE_LONG_WARP:
        raise Reject("warps over more than %d frames / coefficients are behind ENABLE_LONG_WARP" % LONG_WARP_ABOVE)
    feats = _feats(case)
    lengths = _lengths(case)
    N, T, F = feats.shape
    cfg = case["cfg"]
    order = cfg["interpolation_order"]
    params = _draw(case, feats, lengths)
    classes = _check_draw(case, params)
    if case["route"] == "module":
        m = _module(cfg)
        out = m.apply_parameters(feats, params, lengths) if lengths is not None else m.apply_parameters(feats, params)
    else:
        out = spec_augment_apply_parameters(feats, params, order, lengths)
    require(tuple(out.shape) == (N, T, F), "output shape differs from input shape", list(out.shape), [N, T, F])
    require(bool(torch.isfinite(out).all()), "warp of order %d produced a non-finite value" % order,
            out[~torch.isfinite(out)][:4].tolist(), "finite")
    on_time = params[5].numel() > 0
    on_freq = params[7].numel() > 0
    _, cells = _mask_oracle(feats, params[4].tolist() if on_time else None, params[5].tolist() if on_time else None,
                            params[6].tolist() if on_freq else None, params[7].tolist() if on_freq else None, on_time, on_freq)
    zero_mask, _ = _mask_oracle(torch.ones_like(feats), params[4].tolist() if on_time else None,
                                params[5].tolist() if on_time else None, params[6].tolist() if on_freq else None,
                                params[7].tolist() if on_freq else None, on_time, on_freq)
    masked = zero_mask == 0
    require(bool((out[masked] == 0).all()), "masked cell is not exactly 0 after warping", out[masked][:4].tolist(), 0)
    for n in range(N):
        lo, hi = float(feats[n].min()), float(feats[n].max())
        # scaling by a power of two scales every intermediate exactly, so the tolerance scales with it
        tol = 1e-5 * max(abs(lo), abs(hi), 2.0 ** (case.get("scale_exp") or 0))
        vals = out[n][~masked[n]]
        if vals.numel():
            mn, mx = float(vals.min()), float(vals.max())
            require(lo - tol <= mn and mx <= hi + tol, "warp of order %d left the range of the element's input (n=%d)" % (order, n),
                    [mn, mx], [lo, hi])
    classes.add("order_%d" % order)
    if cfg["max_time_warp"]:
        classes.add("time_warp")
    if cfg["max_freq_warp"]:
        classes.add("freq_warp")
    if cells:
        classes.add("with_masks")
    if any(L < T for L in _eff_lengths(case)):
        classes.add("some_length_below_T")
    if case.get("feat_kind") == "constant":
        classes.add("constant_features")
    _layout_classes(case, classes)
    return Info(nontrivial=_nontrivial(case, classes) or "freq_warp_limited_by_half_size" in classes, classes=sorted(classes))


# ------------------------------------------------------------------ call modes


def _call_strategy(tier):
    @st.composite
    def build(draw):
        case = draw(_base(tier, big_dims=("T", "N", "F", "MT", "MF"), garbage=True))
        N, T, F = case["N"], case["T"], case["F"]
        case.update({"cfg": draw(_cfg(T, F, order=True)),
                     "seed": draw(st.integers(0, 2 ** 31 - 1)), "script": None,
                     "fa": draw(st.integers(1, 50)), "fb": draw(st.integers(0, 50))})
        _apply_big_cfg(case)
        _no_long_warp(case)
        # call history of the module object before the judged calls: other batches (same or other N / T / F,
        # lengths given or omitted), in training or evaluation mode
        hist = []
        for _ in range(draw(st.sampled_from([0, 0, 1, 1, 2]))):
            hist.append({"N": draw(st.sampled_from([N, N, 1, 2, 3])), "T": draw(st.sampled_from([T, 1, 2, 5, 9, 33])),
                         "F": draw(st.sampled_from([F, F, 1, 4])), "lengths": draw(st.sampled_from(["none", "none", "full", "mod"])),
                         "mode": draw(st.sampled_from(["train", "train", "eval"])), "seed": draw(st.integers(0, 99))})
        case["history"] = hist
        return case

    return build()


@subcheck("C08", "call_modes", _call_strategy, 600, 15000,
          doc="eval mode (module and functional) returns the input unchanged; the training call equals apply_parameters(draw_parameters) under the same generator state; shape and dtype kept; the module object may have been called before on other batches in train / eval mode and must give what a fresh module gives; thresholds 15..2049 for T, N, F, number of masks (warps off beyond 64 unless ENABLE_LONG_WARP); offset / permuted / strided views; garbage past the lengths",
          required_classes=["train_changed_something", "history_train", "history_eval", "history_same_N_other_T", "history_lengths_omitted_twice",
                            "big_T", "big_N", "feats_offset", "feats_perm_tnf", "lengths_strided", "garbage_past_length"])
def _call_check(case):
    import torch
    from pydrobert.torch.functional import spec_augment

    feats = _feats(case)
    lengths = _lengths(case)
    cfg = case["cfg"]
    if _long_warp(case) and not ENABLE_LONG_WARP:
        raise Reject("warps over more than %d frames / coefficients are behind ENABLE_LONG_WARP" % LONG_WARP_ABOVE)
    N, T, F = feats.shape
    before = feats.clone()
    m = _module(cfg)
    args = (feats,) if lengths is None else (feats, lengths)
    classes = set()

    for h in case.get("history") or []:
        hc = {"N": h["N"], "T": h["T"], "F": h["F"], "fa": 7, "fb": h["seed"],
              "lengths": None if h["lengths"] == "none" else {"rule": "near" if h["lengths"] == "full" else "mod", "a": 0 if h["lengths"] == "full" else 3, "b": 0 if h["lengths"] == "full" else h["seed"]}}
        if not ENABLE_LONG_WARP and ((cfg["max_time_warp"] and h["T"] > LONG_WARP_ABOVE) or (cfg["max_freq_warp"] and h["F"] > LONG_WARP_ABOVE)):
            continue
        hf, hl = _feats(hc), _lengths(hc)
        m.train(h["mode"] == "train")
        torch.manual_seed(h["seed"])
        ho = m(hf) if hl is None else m(hf, hl)
        require(tuple(ho.shape) == tuple(hf.shape), "output shape differs from input shape (earlier call)", list(ho.shape), list(hf.shape))
        classes.add("history_" + h["mode"])
        if h["N"] == N and h["T"] != T:
            classes.add("history_same_N_other_T")
        if hl is None and lengths is None:
            classes.add("history_lengths_omitted_twice")

    def fargs(training):
        return (feats, float(cfg["max_time_warp"]), float(cfg["max_freq_warp"]), cfg["max_time_mask"], cfg["max_freq_mask"],
                float(cfg["max_time_mask_proportion"]), cfg["num_time_mask"], float(cfg["num_time_mask_proportion"]),
                cfg["num_freq_mask"], cfg["interpolation_order"], lengths, training)

    m.eval()
    torch.manual_seed(case["seed"])
    out = m(*args)
    require(tuple(out.shape) == (N, T, F) and _same(out, before), "eval mode changed the input", None, None)
    out_f = spec_augment(*fargs(False))
    require(tuple(out_f.shape) == (N, T, F) and _same(out_f, before), "functional form with training=False changed the input", None, None)
    if out is feats:
        classes.add("eval_returns_same_object")
    m.train()
    torch.manual_seed(case["seed"])
    got = m(*args)
    torch.manual_seed(case["seed"])
    params = m.draw_parameters(*args)
    classes |= _check_draw(case, params)
    exp = m.apply_parameters(feats, params, lengths) if lengths is not None else m.apply_parameters(feats, params)
    require(tuple(got.shape) == (N, T, F), "training output shape differs from input shape", list(got.shape), [N, T, F])
    require(got.dtype == feats.dtype, "training output dtype differs", str(got.dtype), str(feats.dtype))
    require(_same(got, exp), "training call differs from apply_parameters(draw_parameters) under the same generator state",
            got.tolist() if got.numel() <= 64 else None, exp.tolist() if exp.numel() <= 64 else None)
    torch.manual_seed(case["seed"])
    got_f = spec_augment(*fargs(True))
    require(_same(got_f, exp), "functional spec_augment differs from the module under the same generator state",
            got_f.tolist() if got_f.numel() <= 64 else None, exp.tolist() if exp.numel() <= 64 else None)
    if case.get("history"):
        fresh = _module(cfg)
        torch.manual_seed(case["seed"])
        got2 = fresh(*args)
        require(_same(got, got2), "the module's result depends on its earlier calls (differs from a fresh module under the same generator state)",
                got.tolist() if got.numel() <= 64 else None, got2.tolist() if got2.numel() <= 64 else None)
    require(_same(feats, before), "the call modified its input in place", None, None)
    if not _same(got, before):
        classes.add("train_changed_something")
    _layout_classes(case, classes)
    return Info(nontrivial=_nontrivial(case, classes), classes=sorted(classes))


# ------------------------------------------------------------------ every threshold, every run
#
# The generated sub-checks pick their sizes through Hypothesis, which re-uses few distinct values per run (a
# whole size band can be missing from a run).  This sub-check enumerates, deterministically, one case per
# threshold and dimension for each of them and hands it to the same check functions; the class labels are
# prefixed with the name of the sub-check they exercise.


def _cyc(xs, i):
    return xs[i % len(xs)]


def _grid_cfg(i, T, F, warp, masks, order=1):
    return {"max_time_warp": _cyc([1.0, 80.0, T / 2.0 + 0.5, 3.0], i) if warp else 0.0,
            "max_freq_warp": _cyc([0.0, 1.0, F / 2.0 + 0.5], i) if warp else 0.0,
            "max_time_mask": _cyc([3, 100, T + 1, 1], i) if masks else 0,
            "max_freq_mask": _cyc([2, F + 5, 1], i) if masks else 0,
            "max_time_mask_proportion": _cyc([1.0, 0.5, 0.04, 0.25], i) if masks else 0.0,
            "num_time_mask": _cyc([2, 5, 1, 3], i) if masks else 0,
            "num_time_mask_proportion": _cyc([1.0, 0.5, 1.0, 0.04], i) if masks else 0.0,
            "num_freq_mask": _cyc([1, 2, 3], i) if masks else 0,
            "interpolation_order": order}


def _grid_base(i, dim, size):
    N, T, F = 1 + i % 2, 1 + (3 * i) % 6, 1 + i % 3
    if dim == "T":
        T = size
    elif dim == "N":
        N = size
    elif dim == "F":
        F = size
    elif dim == "MT":
        T = _cyc([33, 65, 129, 257], i)
    lengths = _cyc([None, {"rule": "thresh", "a": 1 + i % 7, "b": 3 * i}, {"rule": "near", "a": 0, "b": 0},
                    {"rule": "mod", "a": 5 + i, "b": 2 * i + 1}, {"rule": "near", "a": 1 + i % 4, "b": i}], i)
    case = {"N": N, "T": T, "F": F, "lengths": lengths, "big": dim, "fa": 1 + (7 * i) % 50, "fb": (11 * i) % 50,
            "layout": {"feats": _cyc(FEAT_LAYOUTS, i), "lengths": _cyc(VEC_LAYOUTS, i // 2)}}
    if dim in ("MT", "MF"):
        case["big_count"] = size
    return case


def _size_grid(tier):
    thorough = tier == "thorough"
    out = []

    def dims(names):
        for dim in names:
            limit = 2049 if dim == "T" else (1025 if thorough else 257)
            for i, size in enumerate(x for x in THRESH if x <= limit):
                yield dim, i, size

    for dim, i, size in dims(("T", "N", "F", "MT", "MF")):
        for sub in ("draw_bounds", "draw_bounds_injected", "mask_exact", "call_modes"):
            j = i + len(sub)
            case = _grid_base(j, dim, size)
            case["cfg"] = _grid_cfg(j, case["T"], case["F"], warp=sub in ("draw_bounds", "draw_bounds_injected", "call_modes"),
                                    masks=True, order=1 + j % 3)
            _apply_big_cfg(case)
            _no_long_warp(case)
            if j % 3 == 0:
                case["pad_fill"] = _cyc(PAD_FILLS, j)
            case["route"] = _cyc(["module", "functional"], j)
            if sub == "draw_bounds_injected" or (sub == "mask_exact" and j % 2):
                case["script"] = [0, TWO24 - 1, (j * 104729) % TWO24, 1, TWO24 // 2, TWO24 - 2, (j * 15485863) % TWO24][: 2 + j % 6]
                case["seed"] = 0
            else:
                case["script"] = None
                case["seed"] = 1000003 * j + 17
            if sub == "mask_exact":
                gen = j % 3 == 1 and dim not in ("MT", "MF")
                case.update({"source": "generated" if gen else "drawn", "dtype": _cyc(["float32", "float64"], j), "order": 1 + j % 3,
                             "empty_style": _cyc(["empty", "none"], j)})
                if gen:
                    case["mask_rule"] = {"mt": 1 + j % 3, "mf": j % 3, "a": j % 50, "b": (7 * j) % 50}
                    case["layout"]["params"] = _cyc(["contig", "transposed", "offset", "strided"], j)
                    del case["cfg"]
                if j % 4 == 0:
                    case["special_cells"] = [[j % 3, (5 * j) % 70, j % 12, _cyc(["-inf", "nan", "inf", "huge"], j)], [0, j % 70, (j // 2) % 12, "-inf"]]
            if sub == "call_modes":
                case["history"] = [] if j % 3 == 0 else [{"N": case["N"], "T": _cyc([1, 5, 33], j), "F": case["F"], "lengths": _cyc(["none", "mod"], j),
                                                         "mode": _cyc(["train", "eval"], j), "seed": j % 100}]
            out.append({"sub": sub, "case": case})
    warp_dims = ("N", "T", "F") if ENABLE_LONG_WARP else ("N",)
    for dim, i, size in dims(warp_dims):
        for sub in ("linear_warp", "warp_range"):
            j = i + len(sub)
            case = _grid_base(j, dim, size)
            if sub == "linear_warp" and dim == "F":
                continue
            case["cfg"] = _grid_cfg(j, case["T"], case["F"], warp=True, masks=sub == "warp_range" and j % 2 == 0, order=1 if sub == "linear_warp" else 1 + j % 3)
            if sub == "linear_warp":
                case["cfg"]["max_freq_warp"] = 0.0
                case["layout"]["params"] = _cyc(["contig", "offset", "strided"], j)
            else:
                case["signed"] = j % 2 == 0
                if j % 5 == 0:
                    case["scale_exp"] = _cyc([100, -100, 60, -60], j)
            case["route"] = _cyc(["module", "functional"], j)
            if j % 4 == 0:
                case["script"], case["seed"] = [0, TWO24 - 1, (j * 104729) % TWO24][: 1 + j % 3], 0
            else:
                case["script"], case["seed"] = None, 7919 * j + 3
            out.append({"sub": sub, "case": case})
    return out


_GRID_CHECKS = {"draw_bounds": _draw_check, "draw_bounds_injected": _draw_check, "mask_exact": _mask_check,
                "linear_warp": _warp_check, "warp_range": _range_check, "call_modes": _call_check}


@subcheck("C08", "size_grid", _size_grid, 0, 0, exhaustive=True,
          doc="deterministic grid: one rule-expanded case per threshold 15..2049 (T) / 15..257 (1025) (N, F, numbers of masks) and per dimension, handed to the check functions of draw_bounds, draw_bounds_injected, mask_exact, call_modes (all five dimensions; warps off beyond 64 unless ENABLE_LONG_WARP) and of linear_warp, warp_range (batch only unless ENABLE_LONG_WARP); layouts, garbage, routes, scripted uniforms cycle with the index; class labels are prefixed with the sub-check's name",
          required_classes=[s_ + ":" + c for s_ in ("draw_bounds", "draw_bounds_injected", "mask_exact", "call_modes")
                            for c in ("size_15_65", "size_ge_127", "size_ge_1023", "big_T", "big_N", "big_F", "big_MT", "big_MF")]
          + ["linear_warp:big_N", "warp_range:big_N", "linear_warp:size_ge_127", "warp_range:size_ge_127"]
          + (["linear_warp:size_ge_1023", "warp_range:size_ge_1023", "warp_range:big_F"] if ENABLE_LONG_WARP else []))
def _grid_check(case):
    info = _GRID_CHECKS[case["sub"]](case["case"])
    return Info(nontrivial=info.nontrivial, classes=[case["sub"] + ":" + c for c in info.classes])
