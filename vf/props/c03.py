"""C03 Optimal-completion targets are exactly the distance-preserving next tokens."""
from __future__ import annotations

import math
import warnings

from hypothesis import strategies as st

from ..core import Info, close, require, subcheck
from ..oracles import strings as O
from . import _strgen as G

PADS = [-100, 99, -7]


def _lib():
    import pydrobert.torch.functional as F
    import pydrobert.torch.modules as M

    return F, M


EQUAL_NONDYADIC = [0.1, 0.3, 0.7, 1 / 3, 0.9, 1e-3, 7.3, 1e4 + 0.1]


@st.composite
def _costs(draw):
    """The shared cost classes, plus (1 case in 8) one cost for all three operations that no float represents exactly:
    the target sets are those of unit costs (scaling all costs by one factor changes no comparison), however sums of
    the cost round."""
    k = draw(st.integers(0, 7))
    if k == 0:
        c = draw(st.sampled_from(EQUAL_NONDYADIC))
        return [c, c, c]
    if k == 1:
        # insertions and substitutions so expensive that every distance exceeds any bound in the lengths (R + H + 1, ...)
        big = draw(st.sampled_from([4.0, 16.0, 64.0, 256.0]))
        return [big, draw(st.sampled_from([0.25, 1.0, big])), draw(st.sampled_from([big, 2 * big]))]
    return draw(G.dyadic_costs(force_ties=True))


def _oc(costs):
    """Costs for the oracle: equal costs are replaced by unit costs (same targets, exact arithmetic)."""
    return [1.0, 1.0, 1.0] if costs[0] == costs[1] == costs[2] else costs


@st.composite
def _oc_case(draw, tier, tiny=False):
    if tiny:
        b = draw(G.batch(tier, max_n=2, max_len=3 if tier == "quick" else 4, min_alpha=2, max_alpha=3))
    else:
        b = draw(G.batch(tier, max_n=4, max_len=6 if tier == "quick" else 10, max_alpha=3))
    return {
        "b": b,
        "costs": draw(_costs()),
        "include_eos": draw(st.booleans()),
        "batch_first": draw(st.booleans()),
        "exclude_last": draw(st.booleans()),
        "padding": draw(st.sampled_from(PADS)),
        "entry": draw(st.sampled_from(["function", "module"])),
        "layout": draw(st.sampled_from(G.LAYOUTS)),
    }


def _call_oc(case, ref, hyp):
    F, M = _lib()
    ins, dele, sub = case["costs"]
    kw = dict(eos=case["b"]["eos"], include_eos=case["include_eos"], batch_first=case["batch_first"], ins_cost=ins,
              del_cost=dele, sub_cost=sub, padding=case["padding"], exclude_last=case["exclude_last"])
    with warnings.catch_warnings():
        warnings.simplefilter("ignore")
        if case["entry"] == "module":
            return M.OptimalCompletion(warn=False, **kw)(ref, hyp)
        return F.optimal_completion(ref, hyp, warn=False, **kw)


def _oc_check(case, brute):
    b = case["b"]
    N, H = b["N"], b["H"]
    ref, hyp = G.to_tensors(b, case["batch_first"], case.get("layout", "contiguous"))
    got = _call_oc(case, ref, hyp)
    rows = H if case["exclude_last"] else H + 1
    require(got.dim() == 3, "optimal_completion result rank", got.dim(), 3)
    if not case["batch_first"]:
        got = got.transpose(0, 1)
    require(tuple(got.shape[:2]) == (N, rows), "optimal_completion leading shape (N, prefixes)", tuple(got.shape[:2]), (N, rows))
    got = got.tolist()
    rl, hl = G.lens_of(b, case["include_eos"])
    pad = case["padding"]
    cl = G.common_classes(b, rl, hl, case["costs"])
    if case["costs"][0] in EQUAL_NONDYADIC and _oc(case["costs"]) != case["costs"]:
        cl.append("costs_equal_inexact")
    if min(case["costs"][0], case["costs"][2]) >= 4 and len(set(rl)) > 1:
        cl.append("expensive_edits_mixed_reference_lengths")
    multi = repeated = past_end = empty_set = excluded = False
    alphabet = sorted(set(range(-2, b["A"] + 3)))
    for n in range(N):
        r, h = b["refs"][n][: rl[n]], b["hyps"][n][: hl[n]]
        if len(h) == 0 and case["exclude_last"]:
            excluded = True  # the statement excludes this combination
            continue
        nprefix = len(h) + (0 if case["exclude_last"] else 1)
        for k in range(rows):
            slot = got[n][k]
            real = [t for t in slot if t != pad]
            require(slot[: len(real)] == real, "padding before a target (pair %d prefix %d)" % (n, k), slot, "targets then padding only")
            if k >= nprefix:
                past_end = True
                require(real == [], "prefix past the hypothesis's end has targets (pair %d prefix %d)" % (n, k), slot, "all padding")
                continue
            require(len(set(real)) == len(real), "a target listed twice (pair %d prefix %d)" % (n, k), slot, None)
            exp = O.oc_targets_dp(r, h[:k], *_oc(case["costs"]))
            if brute:
                alpha = sorted(set(r) | set(h) | {max(list(r) + list(h) + [0]) + 1})
                exp_b = O.oc_targets_bruteforce(r, h[:k], alpha, *_oc(case["costs"]))
                require(exp_b == exp, "harness: DP lemma disagrees with the definitional enumeration", exp, exp_b, kind="harness")
            require(sorted(real) == exp, "targets of pair %d prefix %d (ref=%s prefix=%s costs=%s)" % (n, k, r, h[:k], case["costs"]),
                    sorted(real), exp)
            if len(exp) >= 2:
                multi = True
            if not exp:
                empty_set = True
            if any(list(r).count(t) >= 2 for t in exp):
                repeated = True
    if multi:
        cl.append("multi_target")
    if repeated:
        cl.append("repeated_token_target")
    if past_end:
        cl.append("past_end")
    if empty_set:
        cl.append("empty_target_set")
    if excluded:
        cl.append("excluded_pair")
    if case["exclude_last"]:
        cl.append("exclude_last")
    nt = multi or repeated or "costs_unequal" in cl
    return Info(nontrivial=nt, classes=cl)


@subcheck("C03", "targets_vs_dp", lambda tier: _oc_case(tier), 2000, 50000,
          doc="optimal_completion (function/module) vs {ref[j]: D[j][|p|] minimal over j<=r} from the scalar DP; set equality, once each, padding only after, padding past the hypothesis",
          required_classes=["multi_target", "repeated_token_target", "past_end", "empty_target_set", "costs_unequal", "costs_equal_inexact", "expensive_edits_mixed_reference_lengths", "exclude_last"])
def _targets_vs_dp(case):
    return _oc_check(case, brute=False)


@subcheck("C03", "targets_vs_definition", lambda tier: _oc_case(tier, tiny=True), 400, 6000,
          doc="tiny instances: targets vs the definition itself (t is a target iff min over all completions of d(ref, p+t+s) == min over completions of d(ref, p+s), completions enumerated by brute force); also guards the DP lemma",
          required_classes=["multi_target", "costs_unequal"], timeout_s=6000)
def _targets_vs_definition(case):
    return _oc_check(case, brute=True)


# ------------------------------------------------------------------ loss

_LOGIT = st.integers(-12, 12).map(lambda k: k / 4)


def _saturate(draw, row):
    """Now and then one class gets a logit so large that its negative log-probability is exactly 0 in float32."""
    if draw(st.integers(0, 3)) == 0:
        row[draw(st.integers(0, len(row) - 1))] = draw(st.sampled_from([100.0, 30.0, 60.0]))
    return row


@st.composite
def _loss_case(draw, tier):
    big = tier == "thorough"
    N = draw(st.sampled_from([1, 2, 2, 3, 3]))
    R = draw(st.integers(1, 8 if big else 6))
    H = draw(st.integers(1, 6 if big else 4))
    A = draw(st.sampled_from([1, 2, 3, 3, 4]))
    eos_kind = draw(st.sampled_from(["none", "top", "inside"]))
    V = A + 1
    eos = None if eos_kind == "none" else (A if eos_kind == "top" else draw(st.integers(0, A - 1)))
    refs = [draw(G.row(R, A, eos)) for _ in range(N)]
    hyps = [draw(G.row(H, A, eos)) for _ in range(N)]
    if eos is None:
        pass
    else:
        for hrow in hyps:  # at least one counted token whatever include_eos is
            if hrow[0] == eos:
                hrow[0] = (eos + 1) % V if (eos + 1) % V != eos else eos + 1
    include_eos = draw(st.booleans())
    # counted reference tokens must be class indices: plant non-negative tokens before the first eos
    for rrow in refs:
        for i, t in enumerate(rrow):
            if eos is not None and t == eos:
                break
            if t < 0 or t >= V:
                rrow[i] = draw(st.integers(0, A - 1))
    use_w = draw(st.booleans())
    return {
        "b": {"N": N, "R": R, "H": H, "A": A, "eos": eos, "eos_kind": eos_kind, "refs": refs, "hyps": hyps},
        "V": V,
        "logits": [[_saturate(draw, [draw(_LOGIT) for _ in range(V)]) for _ in range(H)] for _ in range(N)],
        "weight": [draw(st.integers(1, 8)) / 4 for _ in range(V)] if use_w else None,
        "costs": draw(_costs()),
        "include_eos": include_eos,
        "batch_first": draw(st.booleans()),
        "reduction": draw(st.sampled_from(["none", "sum", "mean", "mean"])),
        "ignore_index": draw(st.sampled_from([-2, -100])),
        "entry": draw(st.sampled_from(["function", "module"])),
        "layout": draw(st.sampled_from(G.LAYOUTS)),
    }


@subcheck("C03", "ocd_loss", lambda tier: _loss_case(tier), 2500, 50000,
          doc="hard OCD loss vs mean over the oracle's target set of -log softmax(logits)[t] (x class weight), 0 where the set is empty or the prefix does not exist; none / sum exact, mean in any of its natural readings",
          required_classes=["multi_target", "empty_target_set", "reduction_sum", "reduction_mean", "weighted", "mean_ragged_target_counts", "saturated_logits"])
def _ocd_loss(case):
    import torch

    F, M = _lib()
    b = case["b"]
    N, H, V = b["N"], b["H"], case["V"]
    eos = b["eos"]
    ref, hyp = G.to_tensors(b, case["batch_first"])
    logits = torch.tensor(case["logits"], dtype=torch.float)  # (N, H, V)
    if not case["batch_first"]:
        logits = logits.transpose(0, 1).contiguous()
    w = None if case["weight"] is None else torch.tensor(case["weight"], dtype=torch.float)
    ins, dele, sub = case["costs"]
    kw = dict(eos=eos, include_eos=case["include_eos"], batch_first=case["batch_first"], ins_cost=ins, del_cost=dele,
              sub_cost=sub, weight=w, reduction=case["reduction"], ignore_index=case["ignore_index"])
    with warnings.catch_warnings():
        warnings.simplefilter("ignore")
        if case["entry"] == "module":
            got = M.HardOptimalCompletionDistillationLoss(**kw)(logits, ref, hyp, warn=False)
        else:
            got = F.hard_optimal_completion_distillation_loss(logits, ref, hyp, warn=False, **kw)
    rl, hl = G.lens_of(b, case["include_eos"])
    exp = [[0.0] * H for _ in range(N)]
    has = [[False] * H for _ in range(N)]
    multi = empty_set = False
    for n in range(N):
        r, h = b["refs"][n][: rl[n]], b["hyps"][n][: hl[n]]
        for k in range(min(H, len(h))):
            S = O.oc_targets_dp(r, h[:k], *_oc(case["costs"]))
            if not S:
                empty_set = True
                continue
            if len(S) >= 2:
                multi = True
            lg = case["logits"][n][k]
            mx = max(lg)
            lse = mx + math.log(sum(math.exp(x - mx) for x in lg))
            tot = 0.0
            for t in S:
                nll = lse - lg[t]
                tot += nll * (case["weight"][t] if case["weight"] else 1.0)
            exp[n][k] = tot / len(S)
            has[n][k] = True
    flat = [x for rowv in exp for x in rowv]
    red = case["reduction"]
    if red == "none":
        shape = (N, H) if case["batch_first"] else (H, N)
        require(tuple(got.shape) == shape, "loss shape (reduction none)", tuple(got.shape), shape)
        g = got if case["batch_first"] else got.t()
        g = g.tolist()
        for n in range(N):
            for k in range(H):
                require(close(g[n][k], exp[n][k], rel=2e-5, abs_=2e-6), "loss at pair %d prefix %d" % (n, k), g[n][k], exp[n][k])
    elif red == "sum":
        require(close(got.item(), sum(flat), rel=2e-5, abs_=1e-5), "sum-reduced loss", got.item(), sum(flat))
    else:
        per_seq = []
        for n in range(N):
            cnt = sum(has[n])
            per_seq.append(sum(exp[n]) / max(cnt, 1))
        ntar = sum(sum(hr) for hr in has)
        cands = [sum(per_seq) / N, sum(flat) / (N * H), sum(flat) / max(ntar, 1)]
        require(any(close(got.item(), c, rel=2e-5, abs_=1e-5) for c in cands), "mean-reduced loss", got.item(), cands)
        lo, hi = min(flat), max(flat)
        require(lo - 1e-5 <= got.item() <= hi + 1e-5, "mean-reduced loss outside the range of the unreduced values", got.item(), [lo, hi])
    # metamorphic: the other memory layout of the same data gives the same reduced loss
    if red != "none":
        ref2, hyp2 = G.to_tensors(b, not case["batch_first"])
        logits2 = torch.tensor(case["logits"], dtype=torch.float)
        if case["batch_first"]:
            logits2 = logits2.transpose(0, 1).contiguous()
        kw2 = dict(kw, batch_first=not case["batch_first"])
        with warnings.catch_warnings():
            warnings.simplefilter("ignore")
            other = F.hard_optimal_completion_distillation_loss(logits2, ref2, hyp2, warn=False, **kw2)
        require(close(got.item(), other.item(), rel=2e-5, abs_=1e-5), "reduced loss differs between batch_first layouts of the same data",
                got.item(), other.item())
    tcounts = [sum(hr) for hr in has]
    cl = ["reduction_" + red, "entry_" + case["entry"], "eos_" + b["eos_kind"], G.cost_class(case["costs"])]
    if red == "mean" and len(set(tcounts)) > 1:
        cl.append("mean_ragged_target_counts")
    if multi:
        cl.append("multi_target")
    if empty_set:
        cl.append("empty_target_set")
    if case["weight"]:
        cl.append("weighted")
    if any(max(r) >= 30.0 for nrow in case["logits"] for r in nrow):
        cl.append("saturated_logits")
    return Info(nontrivial=multi or G.cost_class(case["costs"]) == "costs_unequal", classes=cl)


@st.composite
def _indep_case(draw, tier):
    c = draw(_oc_case(tier))
    c["refill"] = draw(st.lists(st.integers(-3, c["b"]["A"] + 2), min_size=8, max_size=8))
    return c


@subcheck("C03", "independence", lambda tier: _indep_case(tier), 800, 15000,
          doc="metamorphic: rewriting the tokens after the first eos of reference and hypothesis rows leaves the target sets unchanged",
          required_classes=["post_eos_rewritten"])
def _independence(case):
    b = case["b"]
    eos = b["eos"]
    bf = case["batch_first"]
    ref, hyp = G.to_tensors(b, bf)
    full = _call_oc(case, ref, hyp)
    if not bf:
        full = full.transpose(0, 1)
    full = full.tolist()
    cl = []
    if eos is not None:
        fill = case["refill"]
        changed = False
        new = {"refs": [], "hyps": []}
        for key in ("refs", "hyps"):
            for rowv in b[key]:
                rowv = list(rowv)
                if eos in rowv:
                    p = rowv.index(eos)
                    for i in range(p + 1, len(rowv)):
                        v = fill[i % len(fill)]
                        changed = changed or rowv[i] != v
                        rowv[i] = v
                new[key].append(rowv)
        if changed:
            cl.append("post_eos_rewritten")
            b2 = dict(b, refs=new["refs"], hyps=new["hyps"])
            ref2, hyp2 = G.to_tensors(b2, bf)
            alt = _call_oc(case, ref2, hyp2)
            if not bf:
                alt = alt.transpose(0, 1)
            alt = alt.tolist()
            pad = case["padding"]
            rl, hl = G.lens_of(b, case["include_eos"])
            for n in range(b["N"]):
                if hl[n] == 0 and case["exclude_last"]:
                    continue
                for k in range(len(full[n])):
                    a = sorted(t for t in full[n][k] if t != pad)
                    c_ = sorted(t for t in alt[n][k] if t != pad)
                    require(a == c_, "targets changed when post-eos tokens were rewritten (pair %d prefix %d)" % (n, k), c_, a)
    return Info(nontrivial=bool(cl), classes=cl)


@st.composite
def _long_case(draw, tier):
    return {
        "b": draw(G.long_batch(tier, max_n=2)),
        "costs": draw(_costs()),
        "include_eos": draw(st.booleans()),
        "batch_first": draw(st.booleans()),
        "exclude_last": draw(st.booleans()),
        "padding": -100,
        "entry": "function",
    }


@subcheck("C03", "long_pairs", lambda tier: _long_case(tier), 150, 2500,
          doc="references of 10..40 (thorough ..100) tokens with many repeats and hypotheses derived by edit runs: targets vs the DP lemma",
          required_classes=["len_ge_16"])
def _long_pairs(case):
    info = _oc_check(case, brute=False)
    m = max(len(r) for r in case["b"]["refs"])
    if m >= 16:
        info.classes.append("len_ge_16")
    info.nontrivial = True
    return info


@st.composite
def _eos_wide_case(draw, tier):
    return {
        "b": draw(G.eos_padded_wide_batch(tier, max_n=2)),
        "costs": draw(_costs()),
        "include_eos": draw(st.booleans()), "batch_first": draw(st.booleans()), "exclude_last": draw(st.booleans()),
        "padding": -100, "entry": "function", "layout": "contiguous",
    }


@subcheck("C03", "eos_padded_wide", lambda tier: _eos_wide_case(tier), 40, 300,
          doc="transcripts of <= 6 tokens in tensors 257..530 (thorough ..2049) wide, padded with copies of eos: targets vs the DP lemma")
def _eos_padded_wide(case):
    info = _oc_check(case, brute=False)
    info.nontrivial = True
    info.classes.append("width_ge_257")
    return info
