"""C12 Data-directory validation accepts exactly well-formed directories; fixes stick; the report is a
recount; sos/eos are put around every transcript on reading and stripped on writing."""
from __future__ import annotations

import copy
import os

from hypothesis import strategies as st

from ..core import Info, Violation, expect_raises, require, subcheck
from .. import dirs
from ..oracles import c12_dirs as O

FIXES = [0, 1, 2, 5, 3]


# ---------------------------------------------------------------- generators



REPAIRABLE_MENU = ["ali_up", "ali_long", "ali_long", "ref_up", "ref_half", "ref_half", "ref_over", "ref_over"]
FATAL_MENU = ["feat_dtype", "feat_width", "feat_rank", "ali_bad_dtype", "ali_short", "ali_rank", "ali_far",
              "ref_bad_dtype", "ref_otherdim", "ref_rank", "ref_width", "ref_reversed", "ref_start_over", "ref_far"]
STRUCT_MENU = ["ali_missing", "ref_missing"]


def _clean_row(draw, T, dim):
    t = draw(st.one_of(st.integers(0, 4), st.integers(0, 4), st.integers(0, 12)))
    if dim != 2:
        return [t, -1, -1]
    kind = draw(st.sampled_from(["ok"] * 5 + ["empty"] * 2 + ["none"] * 3 + ["negs"]))
    if kind == "ok":
        s = draw(st.integers(0, T))
        e = draw(st.integers(s, T))
    elif kind == "empty":
        s = e = draw(st.integers(0, T))
    elif kind == "none":
        s = e = -1
    else:
        s, e = draw(st.integers(-4, -1)), draw(st.integers(-4, -1))
    return [t, s, e]


def _tol(draw, k0):
    """an overshoot around the tolerance: exactly k, k+1, or small / large"""
    return draw(st.sampled_from([max(k0, 1), max(k0, 1), k0 + 1, 1, 2, 5, 6]))


@st.composite
def dir_case(draw, tier, plans=("valid", "valid", "repairable", "repairable", "repairable", "any", "any", "fatal1"),
             fix_choices=None, allow_missing=True):
    """A directory description: 0..5 utterances with any combination of injected defects.

    A *plan* is drawn first (no defect / only documented-repairable ones / any mixture / one fatal), then the
    defects are placed on utterances, so that the classes the property singles out are frequent by construction.
    """
    big = tier == "thorough"
    n = dirs.wdraw(draw, (1, st.just(0)), (19, st.integers(1, 5 if not big else 7)))
    F = draw(st.integers(1, 3))
    fdt = draw(st.sampled_from(["float32", "float32", "float64"]))
    ali_dir, ref_dir = draw(st.sampled_from([True, True, False])), draw(st.sampled_from([True, True, True, False]))
    ref_dim = draw(st.sampled_from([1, 2, 2]))
    fix = draw(st.sampled_from(fix_choices if fix_choices is not None else [None] + FIXES))
    k0 = fix if fix is not None else 1
    utts = []
    for i in range(n):
        T = dirs.wdraw(draw, (1, st.just(0)), (12, st.integers(1, 6)))
        ali = ref = None
        if ali_dir:
            ali = {"dtype": "int64", "rank": 1,
                   "vals": draw(st.lists(st.one_of(st.integers(0, 3), st.integers(0, 3), st.integers(0, 11)),
                                         min_size=T, max_size=T))}
        if ref_dir:
            R = dirs.wdraw(draw, (1, st.just(0)), (6, st.integers(1, 4)))
            ref = {"dtype": "int64", "dim": ref_dim, "width": 3, "rows": [_clean_row(draw, T, ref_dim) for _ in range(R)]}
        utts.append({"feat": {"T": T, "F": F, "dtype": fdt, "rank": 2}, "ali": ali, "ref": ref})
    plan = draw(st.sampled_from(list(plans)))
    row_defects = {"ref_half", "ref_over", "ref_far", "ref_reversed", "ref_start_over"}

    def usable(menu):
        return [m for m in menu if not (m.startswith("ali_") and not ali_dir) and not (m.startswith("ref_") and not ref_dir)
                and not (m in row_defects and ref_dim != 2)]

    if plan == "valid" or n == 0:
        todo = []
    elif plan == "repairable":
        menu = usable(REPAIRABLE_MENU)
        todo = draw(st.lists(st.sampled_from(menu), min_size=1, max_size=4)) if menu else []
    elif plan == "fatal1":
        todo = [draw(st.sampled_from(usable(FATAL_MENU)))]
    else:
        menu = usable(REPAIRABLE_MENU + FATAL_MENU + (STRUCT_MENU if allow_missing else []))
        todo = draw(st.lists(st.sampled_from(menu), min_size=1, max_size=4))
    for what in todo:
        u = utts[draw(st.integers(0, n - 1))]
        T, feat, ali, ref = u["feat"]["T"], u["feat"], u["ali"], u["ref"]
        if what == "feat_dtype":
            feat["dtype"] = draw(st.sampled_from([d for d in ("float32", "float64", "int64", "float16") if d != fdt]))
        elif what == "feat_width":
            feat["F"] = draw(st.sampled_from([F + 1, F + 2] + ([F - 1] if F > 1 else [])))
        elif what == "feat_rank":
            feat["rank"] = draw(st.sampled_from([1, 3]))
        elif what.startswith("ali_"):
            if ali is None:
                continue
            if what == "ali_up":
                ali["dtype"] = draw(st.sampled_from(["int32", "uint8"]))
            elif what == "ali_bad_dtype":
                ali["dtype"] = draw(st.sampled_from(["float32", "float64", "bool"]))
            elif what in ("ali_long", "ali_far"):
                d = _tol(draw, k0) if what == "ali_long" else k0 + draw(st.integers(1, 3))
                ali["vals"] = ali["vals"][:T] + draw(st.lists(st.integers(0, 3), min_size=d, max_size=d))
            elif what == "ali_short":
                if T > 0:
                    ali["vals"] = ali["vals"][:draw(st.integers(0, T - 1))]
            elif what == "ali_rank":
                ali["rank"] = draw(st.sampled_from([0, 2]))
            elif what == "ali_missing":
                u["ali"] = None
        else:
            if ref is None:
                continue
            if what == "ref_up":
                ref["dtype"] = draw(st.sampled_from(["int32", "int32", "uint8"]))
            elif what == "ref_bad_dtype":
                ref["dtype"] = draw(st.sampled_from(["float32", "bool"]))
            elif what == "ref_otherdim":
                ref["dim"] = 3 - ref_dim
                if ref["dim"] == 2:
                    ref["rows"] = [_clean_row(draw, T, 2) for _ in ref["rows"]]
            elif what == "ref_rank":
                ref["dim"] = draw(st.sampled_from([0, 3]))
            elif what == "ref_width":
                ref["dim"], ref["width"] = 2, draw(st.sampled_from([1, 2, 4]))
            elif what == "ref_missing":
                u["ref"] = None
            else:  # a defective row (only meaningful for 2-D references)
                t = draw(st.integers(0, 4))
                if what == "ref_half":
                    if draw(st.booleans()):
                        s, e = draw(st.integers(0, T + 1)), draw(st.integers(-3, -1))
                    else:
                        s, e = draw(st.integers(-3, -1)), draw(st.integers(0, T + 2))
                elif what == "ref_over":
                    s = draw(st.one_of(st.integers(0, T), st.just(T)))
                    e = T + _tol(draw, k0)
                elif what == "ref_far":
                    s, e = draw(st.integers(0, T)), T + k0 + draw(st.integers(1, 3))
                elif what == "ref_reversed":
                    s = draw(st.integers(1, T + 2))
                    e = draw(st.integers(0, s - 1))
                else:  # start beyond T
                    s = T + draw(st.integers(1, 3))
                    e = s + draw(st.integers(0, 2))
                pos = draw(st.integers(0, len(ref["rows"])))
                ref["rows"].insert(pos, [t, s, e] if ref["dim"] == 2 else [t, -1, -1])
    return {
        "prefix": draw(st.sampled_from(["", "", "p_"])),
        "suffix": draw(st.sampled_from([".pt", ".pt", ".x"])),
        "distract": draw(st.sampled_from([False, False, True])),
        "ali_dir": ali_dir, "ref_dir": ref_dir,
        "fix": fix,
        "utts": utts,
    }


# ---------------------------------------------------------------- shared pieces


def _dataset(data_dir, case):
    from pydrobert.torch import data

    with dirs.quiet():
        return data.SpectDataSet(data_dir, file_prefix=case["prefix"], file_suffix=case["suffix"],
                                 warn_on_missing=False, suppress_alis=False, suppress_uttids=True,
                                 tokens_only=False)


def _validate(ds, fix=None):
    from pydrobert.torch import data

    with dirs.quiet():
        data.validate_spect_data_set(ds, fix)


def _diff(got, want):
    """first differing file of two directory listings, for the message"""
    for k in sorted(set(got) | set(want)):
        if got.get(k) != want.get(k):
            return k, got.get(k), want.get(k)
    return None


def _classes(ds_defects, model, fix):
    codes = sorted({d["code"].split(":")[0] for d in ds_defects})
    cl = ["defect_" + c for c in codes]
    cl.append("defects_%s" % (len(ds_defects) if len(ds_defects) < 3 else "3plus"))
    if not ds_defects:
        cl.append("valid")
    if fix is not None and any(d["min_fix"] == fix and fix > 0 for d in ds_defects):
        cl.append("tolerance_exact")
    if fix is not None and any(d["min_fix"] == fix + 1 for d in ds_defects):
        cl.append("tolerance_plus_one")
    if not model["utts"]:
        cl.append("empty_set")
    return cl


def _nontrivial(ds_defects, fix):
    return len(ds_defects) >= 2 or (fix is not None and fix > 0 and any(d["min_fix"] == fix for d in ds_defects))


def _expect_members(ds, model):
    require(list(ds.utt_ids) == sorted(model["utts"]), "data set lists other utterances than the files present in every sub-directory",
            list(ds.utt_ids), sorted(model["utts"]))
    require(bool(ds.has_ali) == model["has_ali"] and bool(ds.has_ref) == model["has_ref"],
            "has_ali/has_ref do not reflect the sub-directories", [ds.has_ali, ds.has_ref],
            [model["has_ali"], model["has_ref"]])


def _strict_step(ds, data_dir, case, model, disk):
    """Strict validation raises ValueError iff the documented conditions are not met; never writes."""
    ds_defects = O.defects(model)
    if ds_defects:
        with expect_raises(ValueError, what="strict validation of a directory with %s" % sorted({d["code"] for d in ds_defects})):
            _validate(ds)
    else:
        _validate(ds)
    after = dirs.read_dir(data_dir, case)
    require(after == disk, "strict validation changed the directory", _diff(after, disk), None)
    return ds_defects


def _fix_step(ds, data_dir, case, model, disk, k):
    """Returns (new_model, new_disk, succeeded)."""
    ds_defects = O.defects(model)
    if O.repairable(ds_defects, k):
        want_model = O.repaired(model, k)
        _validate(ds, k)
        after = dirs.read_dir(data_dir, case)
        want = dirs.apply_model(disk, case, want_model)
        require(after == want, "directory after fix=%d differs from the documented repairs" % k, _diff(after, want), None)
        return want_model, after, True
    with expect_raises(ValueError, what="fix=%d on a directory with %s" % (
            k, sorted("%s/%s" % (d["code"], d["min_fix"]) for d in ds_defects if d["min_fix"] is None or d["min_fix"] > k))):
        _validate(ds, k)
    after = dirs.read_dir(data_dir, case)
    # whatever was written before the error: each file is either untouched or its documented repair
    parts = O.repair_parts(model, k)
    for key in sorted(set(after) | set(disk)):
        if after.get(key) == disk.get(key):
            continue
        sub, fn = key.split("/", 1) if "/" in key else (None, key)
        uid = fn[len(case["prefix"]):len(fn) - len(case["suffix"])]
        rep = parts.get(uid, {}).get(sub) if sub in ("ali", "ref") else None
        require(rep is not None and after.get(key) == rep,
                "a failed fix=%d pass left %s neither untouched nor repaired as documented" % (k, key),
                after.get(key), [disk.get(key), rep])
    new_model = dirs.model_of(after, case)
    return new_model, after, False


# ---------------------------------------------------------------- 1. strict acceptance


def _strict_strategy(tier):
    return dir_case(tier, plans=("valid", "valid", "repairable", "any", "any", "any", "any", "fatal1"), fix_choices=[None])


@subcheck("C12", "strict_accept", _strict_strategy, quick=1000, thorough=15000,
          doc="directories with any combination of injected defects; strict validation raises ValueError iff the "
              "predicate written from conditions 1-6.3.2 rejects; directory untouched; discovery by prefix/suffix",
          required_classes=["valid", "defects_1", "defects_2", "defects_3plus", "defect_ref_over", "defect_ali_long",
                            "defect_ref_dim_mixed", "defect_feat_dtype_mixed", "defect_ref_half"])
def _strict_check(case):
    with dirs.scratch_root() as root:
        data_dir = os.path.join(root, "data")
        dirs.write_dir(data_dir, case)
        disk = dirs.read_dir(data_dir, case)
        model = dirs.model_of(disk, case)
        ds = _dataset(data_dir, case)
        _expect_members(ds, model)
        ds_defects = _strict_step(ds, data_dir, case, model, disk)
    cl = _classes(ds_defects, model, None)
    if len(model["utts"]) < len(case["utts"]):
        cl.append("utt_missing_in_subdir")
    if case["distract"]:
        cl.append("distractor_files")
    return Info(nontrivial=_nontrivial(ds_defects, None), classes=cl)


# ---------------------------------------------------------------- 2. fix


def _fix_strategy(tier):
    return dir_case(tier, plans=("valid", "repairable", "repairable", "repairable", "repairable", "any", "any", "any", "fatal1"),
                    fix_choices=FIXES + ([4, 7] if tier == "thorough" else []))


@subcheck("C12", "fix_repair", _fix_strategy, quick=1500, thorough=20000,
          doc="same directories with fix=k: raises iff some defect is not among the documented repairs for k; "
              "otherwise files on disk == oracle's repaired tensors, strict validation then passes, a second fix "
              "pass changes nothing; a failed pass leaves every file untouched or repaired",
          required_classes=["repaired", "unrepairable", "tolerance_exact", "tolerance_plus_one", "defect_ref_half",
                            "defect_ali_dtype", "defect_ref_over", "defect_ali_long"])
def _fix_check(case):
    k = case["fix"]
    with dirs.scratch_root() as root:
        data_dir = os.path.join(root, "data")
        dirs.write_dir(data_dir, case)
        disk = dirs.read_dir(data_dir, case)
        model = dirs.model_of(disk, case)
        ds = _dataset(data_dir, case)
        _expect_members(ds, model)
        ds_defects = O.defects(model)
        new_model, new_disk, ok = _fix_step(ds, data_dir, case, model, disk, k)
        if ok:
            left = _strict_step(ds, data_dir, case, new_model, new_disk)
            require(not left, "oracle: repaired directory not valid", left, [])
            m2, d2, ok2 = _fix_step(ds, data_dir, case, new_model, new_disk, k)
            require(ok2 and d2 == new_disk, "second fix pass changed the directory", _diff(d2, new_disk), None)
            # a fresh data set object sees the same, valid, directory
            _strict_step(_dataset(data_dir, case), data_dir, case, new_model, new_disk)
        else:
            # still invalid for strict validation, and a second pass fails again
            _strict_step(ds, data_dir, case, new_model, new_disk)
            _fix_step(ds, data_dir, case, new_model, new_disk, k)
    cl = _classes(ds_defects, model, k)
    cl.append("fix_%d" % k)
    if ds_defects:
        cl.append("repaired" if ok else "unrepairable")
    return Info(nontrivial=_nontrivial(ds_defects, k), classes=cl)


# ---------------------------------------------------------------- 3. histories


@st.composite
def _history_case(draw, tier):
    base = draw(dir_case(tier, plans=("valid", "valid", "valid", "repairable"), fix_choices=[1], allow_missing=False).filter(lambda c: c["utts"]))
    n = len(base["utts"])
    donor = draw(dir_case(tier, plans=("repairable", "repairable", "any", "fatal1"), fix_choices=FIXES, allow_missing=False).filter(lambda c: c["utts"]))
    ops = []
    m = draw(st.integers(2, 7 if tier == "quick" else 12))
    for _ in range(m):
        kind = draw(st.sampled_from(["validate", "fix", "fix", "corrupt", "corrupt", "info"]))
        if kind == "fix":
            ops.append(["fix", draw(st.sampled_from(FIXES))])
        elif kind == "corrupt":
            i = draw(st.integers(0, n - 1))
            part = draw(st.sampled_from(["ali", "ref", "ref", "feat"]))
            src = draw(st.sampled_from(donor["utts"] + base["utts"]))
            ops.append(["corrupt", i, part, src])
        else:
            ops.append([kind])
    base["ops"] = ops
    base.pop("fix")
    return base


def _transplant(case, i, part, src):
    """utterance i's <part> replaced by a part generated for another utterance (lengths may now disagree)"""
    u = case["utts"][i]
    if part == "feat":
        new = dict(src["feat"])
        return "feat", new
    if u.get(part) is None or src.get(part) is None:
        return None, None
    return part, copy.deepcopy(src[part])


@subcheck("C12", "history", _history_case, quick=400, thorough=6000,
          doc="validate / fix(k) / corrupt-one-file / report histories on one directory and one data set object; "
              "every step is compared with the reference model (accept, repair, raise, recount)",
          required_classes=["fix_after_corrupt", "repaired", "unrepairable"])
def _history_check(case):
    cl = set()
    nontrivial = False
    with dirs.scratch_root() as root:
        data_dir = os.path.join(root, "data")
        dirs.write_dir(data_dir, case)
        disk = dirs.read_dir(data_dir, case)
        model = dirs.model_of(disk, case)
        ds = _dataset(data_dir, case)
        _expect_members(ds, model)
        corrupted = False
        for op in case["ops"]:
            if op[0] == "validate":
                d = _strict_step(ds, data_dir, case, model, disk)
                cl.add("validate_rejects" if d else "validate_accepts")
            elif op[0] == "fix":
                d = O.defects(model)
                model, disk, ok = _fix_step(ds, data_dir, case, model, disk, op[1])
                if d:
                    cl.add("repaired" if ok else "unrepairable")
                    if corrupted:
                        cl.add("fix_after_corrupt")
                    if _nontrivial(d, op[1]):
                        nontrivial = True
                if ok:
                    left = _strict_step(ds, data_dir, case, model, disk)
                    require(not left, "oracle: repaired directory not valid", left, [])
            elif op[0] == "corrupt":
                _, i, part, src = op
                uid = "u%d" % i
                if uid not in model["utts"]:
                    continue
                part, spec = _transplant(case, i, part, src)
                if part is None or model["utts"][uid].get(part) is None:
                    continue
                import torch

                t = {"feat": dirs.feat_tensor, "ali": dirs.ali_tensor, "ref": dirs.ref_tensor}[part](spec)
                torch.save(t, os.path.join(data_dir, part, dirs.fname(case, uid)))
                disk = dirs.read_dir(data_dir, case)
                model = dirs.model_of(disk, case)
                corrupted = True
            else:  # report on a valid directory equals the recount
                if O.defects(model):
                    continue
                got = _run_info(root, data_dir, case, [])
                _compare_report(got, O.report(model))
                cl.add("report")
                after = dirs.read_dir(data_dir, case)
                require(after == disk, "the report command changed the directory", _diff(after, disk), None)
    return Info(nontrivial=nontrivial, classes=sorted(cl))


# ---------------------------------------------------------------- 4. report


def _run_info(root, data_dir, case, flags):
    """Runs get-torch-spect-data-dir-info in process; returns (lines, table)."""
    from pydrobert.torch import command_line

    out = os.path.join(root, "info.txt")
    args = [data_dir, out, "--file-suffix", case["suffix"]] + flags
    if case["prefix"]:
        args += ["--file-prefix", case["prefix"]]
    with dirs.quiet():
        rc = command_line.get_torch_spect_data_dir_info(args)
    require(not rc, "get-torch-spect-data-dir-info returned a non-zero status", rc, 0)
    with open(out) as f:
        lines = f.read().splitlines()
    table = {}
    for ln in lines:
        parts = ln.split(" ")
        require(len(parts) == 2 and parts[0] not in table, "report line is not a unique 'key value' pair", ln, None)
        try:
            table[parts[0]] = int(parts[1])
        except ValueError:
            raise Violation("report value is not an integer", ln, None)
    return lines, table


def _compare_report(got, want):
    lines, table = got
    keys = [ln.split(" ")[0] for ln in lines]
    require(keys == sorted(keys), "report keys are not written in sorted order", keys, sorted(keys))
    want = dict(want)
    if "num_filts" not in want:  # undefined without utterances
        table = {k: v for k, v in table.items() if k != "num_filts"}
    for k in sorted(set(table) | set(want)):
        require(table.get(k) == want.get(k), "report key %s differs from the recount of the stored tensors" % k,
                {k: table.get(k)}, {k: want.get(k)})


def _info_strategy(tier):
    return st.fixed_dictionaries({
        "dir": dir_case(tier, plans=("valid",) * 5 + ("repairable",) * 3 + ("any", "fatal1"), fix_choices=FIXES),
        "mode": st.sampled_from(["none", "none", "strict", "fix", "fix"]),
    })


@subcheck("C12", "info_report", _info_strategy, quick=800, thorough=10000,
          doc="get-torch-spect-data-dir-info (no flag / --strict / --fix k) on valid, repairable and invalid "
              "directories: raises iff validation must; output == key-by-key recount of the (repaired) stored "
              "tensors by the documented key definitions; --fix k repairs on disk like fix=k",
          required_classes=["valid", "report_after_repair", "cli_rejects", "has_ali", "has_ref_2d", "ref_boundaries",
                            "class_ge_10"])
def _info_check(case):
    mode = case["mode"]
    case = case["dir"]
    k = case["fix"]
    cl = []
    with dirs.scratch_root() as root:
        data_dir = os.path.join(root, "data")
        dirs.write_dir(data_dir, case)
        disk = dirs.read_dir(data_dir, case)
        model = dirs.model_of(disk, case)
        ds_defects = O.defects(model)
        if mode == "none" and ds_defects:
            mode = "strict"  # "in an invalid data directory, the stored key/value pairs are not guaranteed"
        if mode == "fix":
            flags = ["--fix", str(k)] if k != 1 or len(case["utts"]) % 2 else ["--fix"]  # bare --fix means 1
            if O.repairable(ds_defects, k):
                want_model = O.repaired(model, k)
                got = _run_info(root, data_dir, case, flags)
                after = dirs.read_dir(data_dir, case)
                want = dirs.apply_model(disk, case, want_model)
                require(after == want, "directory after --fix %d differs from the documented repairs" % k,
                        _diff(after, want), None)
                _compare_report(got, O.report(want_model))
                cl.append("report_after_repair" if ds_defects else "report_fix_valid")
                model = want_model
            else:
                with expect_raises(ValueError, what="--fix %d on a directory with %s" % (
                        k, sorted("%s/%s" % (d["code"], d["min_fix"]) for d in ds_defects))):
                    _run_info(root, data_dir, case, flags)
                cl.append("cli_rejects")
        else:
            flags = ["--strict"] if mode == "strict" else []
            if ds_defects:
                with expect_raises(ValueError, what="--strict on a directory with %s" % sorted(d["code"] for d in ds_defects)):
                    _run_info(root, data_dir, case, flags)
                cl.append("cli_rejects")
            else:
                got = _run_info(root, data_dir, case, flags)
                _compare_report(got, O.report(model))
                cl.append("report_" + mode)
            after = dirs.read_dir(data_dir, case)
            require(after == disk, "the report command without --fix changed the directory", _diff(after, disk), None)
    cl += _classes(ds_defects, model, k if mode == "fix" else None)
    utts = model["utts"].values()
    if model["has_ali"]:
        cl.append("has_ali")
    if model["has_ref"] and "cli_rejects" not in cl:
        two_d = any(len(p["ref"]["shape"]) == 2 for p in utts)
        cl.append("has_ref_2d" if two_d else "has_ref_1d")
        if two_d and any(r[1] >= 0 and r[2] >= 0 for p in utts if len(p["ref"]["shape"]) == 2 for r in p["ref"]["data"]):
            cl.append("ref_boundaries")
        if two_d and any(r[1] == r[2] >= 0 for p in utts if len(p["ref"]["shape"]) == 2 for r in p["ref"]["data"]):
            cl.append("ref_empty_segment")
        if all(p["ref"]["shape"][0] == 0 for p in utts if len(p["ref"]["shape"]) >= 1):
            cl.append("all_refs_empty")
    if "cli_rejects" not in cl:
        rep = O.report(model)
        if rep["max_ali_class"] >= 10 or rep["max_ref_class"] >= 10:
            cl.append("class_ge_10")
    return Info(nontrivial=_nontrivial(ds_defects, k if mode == "fix" else None) or
                (not ds_defects and len(model["utts"]) >= 2 and (model["has_ali"] or model["has_ref"])), classes=cl)


# ---------------------------------------------------------------- 5. sos / eos


def _sos_strategy(tier):
    tok = st.integers(0, 6)
    row = st.tuples(tok, st.integers(-1, 5), st.integers(-1, 7)).map(list)
    ref = st.one_of(st.just([]), st.lists(row, min_size=0, max_size=4), st.lists(row, min_size=1, max_size=6))
    special = st.one_of(st.none(), st.integers(7, 9), st.integers(7, 12), st.integers(-2, -1))
    return st.fixed_dictionaries({
        "kind": st.sampled_from(["spect", "spect", "lang"]),
        "dim": st.sampled_from([1, 2]),
        "tokens_only": st.booleans(),
        "suppress_alis": st.booleans(),
        "suppress_uttids": st.booleans(),
        "with_ali": st.booleans(),
        "dtype": st.sampled_from(["int64", "int64", "int32"]),
        "sos": special, "eos": special,
        "refs": st.lists(ref, min_size=1, max_size=4),
        "by_index": st.booleans(),
        "prefix": st.sampled_from(["", "p_"]),
        "suffix": st.sampled_from([".pt", ".x"]),
    })


@subcheck("C12", "sos_eos_roundtrip", _sos_strategy, quick=1500, thorough=20000,
          doc="SpectDataSet / LangDataSet over 1-D and 2-D references including empty ones: reading yields "
              "[sos] + tokens + [eos] (2-D: rows with -1 boundaries); write_hyp of what was read, loaded raw, "
              "equals the bare tokens; tuple layout for every suppress_* combination",
          required_classes=["empty_ref_with_sos_or_eos", "dim_2", "dim_1", "lang", "spect", "tokens_only_2d"])
def _sos_check(case):
    import torch
    from pydrobert.torch import data

    sos, eos = case["sos"], case["eos"]  # never among the tokens (0..6)
    if sos is not None and eos == sos:
        eos = sos + 13  # the two symbols are distinct
    dim, tokens_only = case["dim"], case["tokens_only"]
    cl = ["dim_%d" % dim, case["kind"]]
    empty_special = False
    with dirs.scratch_root() as root:
        data_dir = os.path.join(root, "data")
        dcase = {"prefix": case["prefix"], "suffix": case["suffix"], "ali_dir": case["with_ali"], "ref_dir": True, "utts": []}
        for i, rows in enumerate(case["refs"]):
            T = 3 + i
            dcase["utts"].append({
                "feat": {"T": T, "F": 2, "dtype": "float32", "rank": 2, "base": 8 * i},
                "ali": {"dtype": "int64", "rank": 1, "vals": [i] * T},
                "ref": {"dtype": case["dtype"], "dim": dim, "width": 3, "rows": rows},
            })
        dirs.write_dir(data_dir, dcase)
        hyp_dir = os.path.join(root, "hyp")
        if case["kind"] == "spect":
            params = data.SpectDataParams(sos=sos, eos=eos)
            with dirs.quiet():
                ds = data.SpectDataSet(data_dir, file_prefix=case["prefix"], file_suffix=case["suffix"], params=params,
                                       suppress_alis=case["suppress_alis"], suppress_uttids=case["suppress_uttids"],
                                       tokens_only=tokens_only)
        else:
            params = data.LangDataParams(sos=sos, eos=eos)
            ds = data.LangDataSet(os.path.join(data_dir, "ref"), params, file_prefix=case["prefix"],
                                  file_suffix=case["suffix"], suppress_uttids=case["suppress_uttids"],
                                  tokens_only=tokens_only)
        require(len(ds) == len(case["refs"]), "len(data set)", len(ds), len(case["refs"]))
        for i, rows in enumerate(case["refs"]):
            uid = "u%d" % i
            item = ds[i]
            # ---- tuple layout
            if case["kind"] == "spect":
                want_len = 2 + (not case["suppress_alis"]) + (not case["suppress_uttids"])
                require(isinstance(item, tuple) and len(item) == want_len, "tuple layout", len(item), want_len)
                feat = item[0]
                require(feat.tolist() == dirs.feat_tensor(dcase["utts"][i]["feat"]).tolist(), "feat of utterance %s" % uid, None, None)
                pos = 1
                if not case["suppress_alis"]:
                    ali = item[1]
                    if case["with_ali"]:
                        require(ali is not None and ali.tolist() == [i] * (3 + i), "ali of utterance %s" % uid,
                                None if ali is None else ali.tolist(), [i] * (3 + i))
                    else:
                        require(ali is None, "ali without an ali directory", ali, None)
                    pos = 2
                ref = item[pos]
                if not case["suppress_uttids"]:
                    require(item[-1] == uid, "utterance id attached to the tuple", item[-1], uid)
            else:
                if case["suppress_uttids"]:
                    ref = item
                else:
                    require(isinstance(item, tuple) and len(item) == 2 and item[1] == uid, "(ref, uttid) layout", None, uid)
                    ref = item[0]
            # ---- sos / eos insertion
            if dim == 2 and not tokens_only:
                bare = [list(r) for r in rows]
                want = ([[sos, -1, -1]] if sos is not None else []) + bare + ([[eos, -1, -1]] if eos is not None else [])
                bare_shape = [len(rows), 3]
            else:
                bare = [r[0] for r in rows]
                want = ([sos] if sos is not None else []) + bare + ([eos] if eos is not None else [])
                bare_shape = [len(rows)]
            if not rows and (sos is not None or eos is not None):
                empty_special = True
            require(isinstance(ref, torch.Tensor) and ref.tolist() == want,
                    "reference read with sos=%r eos=%r is not [sos] + tokens + [eos]" % (sos, eos),
                    ref.tolist() if isinstance(ref, torch.Tensor) else repr(ref), want)
            require(ref.dim() == len(bare_shape), "dimensionality of the reference read", list(ref.shape), bare_shape)
            # ---- write_hyp strips them again
            utt = i if case["by_index"] else uid
            if case["kind"] == "spect" and i % 2 == 0:
                ds.write_hyp(utt, ref)  # default: <data_dir>/hyp
                pth = os.path.join(data_dir, "hyp", case["prefix"] + uid + case["suffix"])
            else:
                ds.write_hyp(utt, ref, hyp_dir)
                pth = os.path.join(hyp_dir, case["prefix"] + uid + case["suffix"])
            require(os.path.isfile(pth), "write_hyp did not write <prefix><utt><suffix>", sorted(os.listdir(root)), pth)
            back = torch.load(pth)
            require(back.tolist() == bare and list(back.shape) == bare_shape and back.dtype == torch.long,
                    "hypothesis written from a read reference does not load as the bare tokens",
                    dirs.stored(back), {"dtype": "torch.int64", "shape": bare_shape, "data": bare})
    if empty_special:
        cl.append("empty_ref_with_sos_or_eos")
    if dim == 2 and tokens_only:
        cl.append("tokens_only_2d")
    if sos is not None and eos is not None:
        cl.append("sos_and_eos")
    return Info(nontrivial=empty_special, classes=cl)


# ---------------------------------------------------------------- 6. write_hyp on noisy hypotheses


def _strip_strategy(tier):
    tok = st.integers(0, 5)
    return st.fixed_dictionaries({
        "dim": st.sampled_from([1, 2]),
        "sos": st.one_of(st.none(), st.just(8)),
        "eos": st.one_of(st.none(), st.just(9)),
        # garbage before the start symbol may repeat sos; after the end symbol may repeat eos
        "before": st.lists(st.one_of(tok, st.just(8)), max_size=4),
        "body": st.lists(tok, max_size=5),
        "after": st.lists(st.one_of(tok, st.just(9)), max_size=4),
        "has_sos": st.booleans(), "has_eos": st.booleans(),
        "dtype": st.sampled_from(["int64", "int32", "float32"]),
        "kind": st.sampled_from(["spect", "lang"]),
    })


@subcheck("C12", "write_hyp_strip", _strip_strategy, quick=600, thorough=8000,
          doc="hypotheses garbage + [sos] + body + [eos] + garbage (garbage may repeat sos before / eos after): "
              "stored file == body as a long tensor (documented: drop through the last sos, from the first eos)",
          required_classes=["garbage_before", "garbage_after", "empty_body"])
def _strip_check(case):
    import torch
    from pydrobert.torch import data

    sos, eos, dim = case["sos"], case["eos"], case["dim"]
    seq = list(case["body"])
    cl = []
    if sos is not None and case["has_sos"]:
        seq = list(case["before"]) + [sos] + seq
        if case["before"]:
            cl.append("garbage_before")
    if eos is not None and case["has_eos"]:
        seq = seq + [eos] + list(case["after"])
        if case["after"]:
            cl.append("garbage_after")
    if not case["body"]:
        cl.append("empty_body")

    def rows(tokens):
        return [[t, j, j + 1] for j, t in enumerate(tokens)] if dim == 2 else list(tokens)

    hyp_rows = rows(seq)
    # the body rows as they appear inside the full hypothesis
    if sos is not None and case["has_sos"]:
        off = len(case["before"]) + 1
    else:
        off = 0
    want = hyp_rows[off:off + len(case["body"])]
    shape = [len(case["body"]), 3] if dim == 2 else [len(case["body"])]
    hyp = torch.tensor(hyp_rows, dtype=dirs.DTYPES[case["dtype"]]).reshape([len(seq)] + shape[1:])
    with dirs.scratch_root() as root:
        data_dir = os.path.join(root, "data")
        dcase = {"prefix": "", "suffix": ".pt", "ali_dir": False, "ref_dir": True,
                 "utts": [{"feat": {"T": 2, "F": 1, "dtype": "float32", "rank": 2},
                           "ref": {"dtype": "int64", "dim": 1, "width": 3, "rows": [[0, -1, -1]]}}]}
        dirs.write_dir(data_dir, dcase)
        hyp_dir = os.path.join(root, "hyp")
        if case["kind"] == "spect":
            with dirs.quiet():
                ds = data.SpectDataSet(data_dir, params=data.SpectDataParams(sos=sos, eos=eos), suppress_alis=True,
                                       tokens_only=True)
        else:
            ds = data.LangDataSet(os.path.join(data_dir, "ref"), data.LangDataParams(sos=sos, eos=eos))
        ds.write_hyp("special", hyp, hyp_dir)
        back = torch.load(os.path.join(hyp_dir, "special.pt"))
    require(back.dtype == torch.long and back.tolist() == want and list(back.shape) == shape,
            "stored hypothesis is not the part between the last sos and the first eos, as a long tensor",
            dirs.stored(back), {"dtype": "torch.int64", "shape": shape, "data": want})
    return Info(nontrivial=bool(cl) and bool(seq), classes=cl + ["dim_%d" % dim])
