"""C12 Data-directory validation accepts exactly well-formed directories; fixes stick; the report is a
recount; sos/eos are put around every transcript on reading and stripped on writing."""
from __future__ import annotations

import copy
import itertools
import os

from hypothesis import strategies as st

from ..core import Info, Violation, expect_raises, require, subcheck
from .. import dirs
from ..oracles import c12_dirs as O

FIXES = [0, 1, 2, 5, 3]
BIG_FIXES = [1000, 2 ** 40]          # "every fix tolerance": tolerances far beyond any overshoot that can be stored
HUGE_IDS = [2 ** 31 - 1, 2 ** 31, 2 ** 32 + 8, 2 ** 40, 2 ** 62]     # legal (non-negative) class / token ids
EXTREME_NEG = [-2 ** 63, -2 ** 31 - 1, -2 ** 31, -100]               # "negative" = no boundary, whatever the magnitude
LAYOUT_POOL = ["own"] * 4 + dirs.LAYOUTS[1:]                         # memory layout of a stored tensor (dirs.with_layout)


# ---------------------------------------------------------------- generators



REPAIRABLE_MENU = ["ali_up", "ali_long", "ali_long", "ref_up", "ref_half", "ref_half", "ref_over", "ref_over"]
FATAL_MENU = ["feat_dtype", "feat_width", "feat_rank", "ali_bad_dtype", "ali_short", "ali_rank", "ali_far",
              "ref_bad_dtype", "ref_otherdim", "ref_rank", "ref_width", "ref_reversed", "ref_start_over", "ref_far", "ref_far"]
STRUCT_MENU = ["ali_missing", "ref_missing"]


def _clean_row(draw, T, dim):
    t = draw(st.one_of(st.integers(0, 4), st.integers(0, 4), st.integers(0, 12)))
    if dim != 2:
        return [t, -1, -1]
    kind = draw(st.sampled_from(["ok"] * 5 + ["empty"] * 2 + ["none"] * 3 + ["negs"]))
    if kind == "ok":
        s = draw(st.integers(0, T))
        e = draw(st.integers(s, T))
    elif kind == "empty":
        s = e = draw(st.integers(0, T))
    elif kind == "none":
        s = e = -1
    else:
        neg = st.one_of(st.integers(-4, -1), st.integers(-4, -1), st.sampled_from(EXTREME_NEG))
        s, e = draw(neg), draw(neg)
    return [t, s, e]


def _tol(draw, k0, storable=False):
    """an overshoot around the tolerance: exactly k, k+1, or small / large (``storable``: the overshoot has to be
    written out as that many alignment frames, so a huge tolerance is only approached from below)"""
    if k0 > 64:
        return draw(st.sampled_from([1, 2, 5, 17, 33] if storable else [k0, k0, k0 + 1, k0 - 1, 1, 17]))
    return draw(st.sampled_from([max(k0, 1), max(k0, 1), k0 + 1, 1, 2, 5, 6]))


UTT_NAMES = ["clip", "cli", "tap", "t", "p_p", "a.pt", "x.x", "seg.", "p_", "utt.p.t"]


@st.composite
def dir_case(draw, tier, plans=("valid", "valid", "repairable", "repairable", "repairable", "any", "any", "fatal1"),
             fix_choices=None, allow_missing=True, allow_huge=False):
    """A directory description: 0..5 utterances with any combination of injected defects.

    A *plan* is drawn first (no defect / only documented-repairable ones / any mixture / one fatal), then the
    defects are placed on utterances, so that the classes the property singles out are frequent by construction.
    """
    big = tier == "thorough"
    n = dirs.wdraw(draw, (1, st.just(0)), (19, st.integers(1, 5 if not big else 7)))
    F = draw(st.integers(1, 3))
    fdt = draw(st.sampled_from(["float32", "float32", "float64", "float16"]))
    ali_dir, ref_dir = draw(st.sampled_from([True, True, False])), draw(st.sampled_from([True, True, True, False]))
    ref_dim = draw(st.sampled_from([1, 2, 2]))
    fix = draw(st.sampled_from(fix_choices if fix_choices is not None else [None] + FIXES))
    k0 = fix if fix is not None else 1
    utts = []
    for i in range(n):
        T = dirs.wdraw(draw, (1, st.just(0)), (12, st.integers(1, 6)))
        ali = ref = None
        if ali_dir:
            ali = {"dtype": "int64", "rank": 1, "layout": draw(st.sampled_from(LAYOUT_POOL)),
                   "vals": draw(st.lists(st.one_of(st.integers(0, 3), st.integers(0, 3), st.integers(0, 11)),
                                         min_size=T, max_size=T))}
        if ref_dir:
            R = dirs.wdraw(draw, (1, st.just(0)), (6, st.integers(1, 4)))
            ref = {"dtype": "int64", "dim": ref_dim, "width": 3, "layout": draw(st.sampled_from(LAYOUT_POOL)),
                   "rows": [_clean_row(draw, T, ref_dim) for _ in range(R)]}
        utts.append({"feat": {"T": T, "F": F, "dtype": fdt, "rank": 2, "layout": draw(st.sampled_from(LAYOUT_POOL))},
                     "ali": ali, "ref": ref})
    plan = draw(st.sampled_from(list(plans)))
    row_defects = {"ref_half", "ref_over", "ref_far", "ref_reversed", "ref_start_over"}

    def usable(menu):
        return [m for m in menu if not (m.startswith("ali_") and not ali_dir) and not (m.startswith("ref_") and not ref_dir)
                and not (m in row_defects and ref_dim != 2)]

    if plan == "valid" or n == 0:
        todo = []
    elif plan == "repairable":
        menu = usable(REPAIRABLE_MENU)
        todo = draw(st.lists(st.sampled_from(menu), min_size=1, max_size=4)) if menu else []
    elif plan == "fatal1":
        todo = [draw(st.sampled_from(usable(FATAL_MENU)))]
    else:
        menu = usable(REPAIRABLE_MENU + FATAL_MENU + (STRUCT_MENU if allow_missing else []))
        todo = draw(st.lists(st.sampled_from(menu), min_size=1, max_size=4))
    for what in todo:
        u = utts[draw(st.integers(0, n - 1))]
        T, feat, ali, ref = u["feat"]["T"], u["feat"], u["ali"], u["ref"]
        if what == "feat_dtype":
            feat["dtype"] = draw(st.sampled_from([d for d in ("float32", "float64", "int64", "float16") if d != fdt]))
        elif what == "feat_width":
            feat["F"] = draw(st.sampled_from([F + 1, F + 2] + ([F - 1] if F > 1 else [])))
        elif what == "feat_rank":
            feat["rank"] = draw(st.sampled_from([1, 3]))
        elif what.startswith("ali_"):
            if ali is None:
                continue
            if what == "ali_up":
                ali["dtype"] = draw(st.sampled_from(["int32", "uint8"]))
            elif what == "ali_bad_dtype":
                ali["dtype"] = draw(st.sampled_from(["float32", "float64", "bool"]))
            elif what in ("ali_long", "ali_far"):
                if what == "ali_far" and k0 > 64:
                    continue  # an overshoot beyond a huge tolerance cannot be stored
                d = _tol(draw, k0, storable=True) if what == "ali_long" else k0 + draw(st.integers(1, 3))
                ali["vals"] = ali["vals"][:T] + draw(st.lists(st.integers(0, 3), min_size=d, max_size=d))
            elif what == "ali_short":
                if T > 0:
                    ali["vals"] = ali["vals"][:draw(st.integers(0, T - 1))]
            elif what == "ali_rank":
                ali["rank"] = draw(st.sampled_from([0, 2]))
            elif what == "ali_missing":
                u["ali"] = None
        else:
            if ref is None:
                continue
            if what == "ref_up":
                ref["dtype"] = draw(st.sampled_from(["int32", "int32", "uint8"]))
            elif what == "ref_bad_dtype":
                ref["dtype"] = draw(st.sampled_from(["float32", "bool"]))
            elif what == "ref_otherdim":
                ref["dim"] = 3 - ref_dim
                if ref["dim"] == 2:
                    ref["rows"] = [_clean_row(draw, T, 2) for _ in ref["rows"]]
                if draw(st.integers(0, 2)) == 0:
                    ref["rows"] = []  # an *empty* transcript of the other dimensionality: shape (0,) among 2-D ones, (0, 3) among 1-D ones
            elif what == "ref_rank":
                ref["dim"] = draw(st.sampled_from([0, 3]))
            elif what == "ref_width":
                ref["dim"], ref["width"] = 2, draw(st.sampled_from([1, 2, 4]))
            elif what == "ref_missing":
                u["ref"] = None
            else:  # a defective row (only meaningful for 2-D references)
                t = draw(st.integers(0, 4))
                if what == "ref_half":
                    if draw(st.booleans()):
                        s, e = draw(st.integers(0, T + 1)), draw(st.integers(-3, -1))
                    else:
                        s, e = draw(st.integers(-3, -1)), draw(st.integers(0, T + 2))
                elif what == "ref_over":
                    s = draw(st.one_of(st.integers(0, T), st.just(T)))
                    e = T + _tol(draw, k0)
                elif what == "ref_far":
                    # far beyond T: by a little more than the tolerance, or by 2**32 (+ something <= T) / 2**62
                    s = draw(st.integers(0, T))
                    e = draw(st.sampled_from([T + k0 + 1, T + k0 + 2, T + k0 + 3, 2 ** 32 + T, 2 ** 32 + s, 2 ** 62]))
                    if e <= T + k0:
                        e = T + k0 + 1
                elif what == "ref_reversed":
                    s = draw(st.integers(1, T + 2))
                    e = draw(st.integers(0, s - 1))
                else:  # start beyond T
                    s = draw(st.sampled_from([T + 1, T + 2, T + 3, 2 ** 32 + draw(st.integers(0, T)), 2 ** 62]))
                    e = s + draw(st.integers(0, 2))
                pos = draw(st.integers(0, len(ref["rows"])))
                ref["rows"].insert(pos, [t, s, e] if ref["dim"] == 2 else [t, -1, -1])
    if allow_huge and n and draw(st.sampled_from([False, False, True])):
        # value class: class / token ids far beyond any vocabulary (still non-negative, as the quantifier says)
        u = utts[draw(st.integers(0, n - 1))]
        if u["ali"] is not None and u["ali"]["vals"]:
            u["ali"]["vals"][draw(st.integers(0, len(u["ali"]["vals"]) - 1))] = draw(st.sampled_from(HUGE_IDS))
        if u["ref"] is not None and u["ref"]["rows"]:
            u["ref"]["rows"][draw(st.integers(0, len(u["ref"]["rows"]) - 1))][0] = draw(st.sampled_from(HUGE_IDS))
    for u in utts:
        # ids stay representable (and therefore non-negative) in the dtype they are stored with
        for part, get in (("ali", lambda p: p["vals"]), ("ref", lambda p: [r[0] for r in p["rows"]])):
            p = u.get(part)
            if p is None or p["dtype"] == "int64":
                continue
            top = {"int32": 2 ** 31 - 1, "uint8": 255}.get(p["dtype"], 2 ** 24)
            if part == "ali":
                p["vals"] = [min(v, top) for v in p["vals"]]
            else:
                for r in p["rows"]:
                    r[0] = min(r[0], top)
                    if p["dtype"] == "int32":
                        r[1], r[2] = (max(min(x, 2 ** 31 - 1), -2 ** 31) for x in r[1:])
    if n and draw(st.integers(0, 2)) == 0:
        # utterance names made of the characters of the prefix / suffix, one a prefix of another, names containing the
        # suffix: discovery strips exactly one prefix and one suffix and nothing else
        names = draw(st.permutations(UTT_NAMES))
        for i, u in enumerate(utts):
            u["id"] = names[i]
    return {
        "prefix": draw(st.sampled_from(["", "", "p_"])),
        "suffix": draw(st.sampled_from([".pt", ".pt", ".x"])),
        "distract": draw(st.sampled_from([False, False, True])),
        "ali_dir": ali_dir, "ref_dir": ref_dir,
        "fix": fix,
        "utts": utts,
    }


# ---------------------------------------------------------------- shared pieces


def _dataset(data_dir, case):
    from pydrobert.torch import data

    with dirs.quiet():
        return data.SpectDataSet(data_dir, file_prefix=case["prefix"], file_suffix=case["suffix"],
                                 warn_on_missing=False, suppress_alis=False, suppress_uttids=True,
                                 tokens_only=False)


def _validate(ds, fix=None):
    from pydrobert.torch import data

    with dirs.quiet():
        data.validate_spect_data_set(ds, fix)


def _diff(got, want):
    """first differing file of two directory listings, for the message"""
    for k in sorted(set(got) | set(want)):
        if got.get(k) != want.get(k):
            return k, got.get(k), want.get(k)
    return None


def _classes(ds_defects, model, fix):
    codes = sorted({d["code"].split(":")[0] for d in ds_defects})
    cl = ["defect_" + c for c in codes]
    cl.append("defects_%s" % (len(ds_defects) if len(ds_defects) < 3 else "3plus"))
    if not ds_defects:
        cl.append("valid")
    if fix is not None and any(d["min_fix"] == fix and fix > 0 for d in ds_defects):
        cl.append("tolerance_exact")
    if fix is not None and any(d["min_fix"] == fix + 1 for d in ds_defects):
        cl.append("tolerance_plus_one")
    if not model["utts"]:
        cl.append("empty_set")
    return cl


def _flat(x):
    if isinstance(x, list):
        for y in x:
            yield from _flat(y)
    else:
        yield x


def _case_classes(case, model):
    """Labels of the value / layout classes that are actually on disk and inside the data set."""
    cl = set()
    for i, u in enumerate(case["utts"]):
        if u.get("id", "u%d" % i) not in model["utts"]:
            continue
        for part in ("feat", "ali", "ref"):
            p = u.get(part)
            if p is None or (part != "feat" and not case.get(part + "_dir", True)):
                continue
            if p.get("layout", "own") != "own":
                cl.add("layout_" + p["layout"])
    if any(uid in UTT_NAMES for uid in model["utts"]):
        cl.add("names_of_affix_characters")
    parts = list(model["utts"].values())
    if parts and all(p["feat"]["dtype"] == "torch.float16" for p in parts):
        cl.add("feat_float16")
    for p in parts:
        ali, ref = p.get("ali"), p.get("ref")
        if ali is not None and ali["dtype"] == O.LONG and any(v >= 2 ** 31 - 1 for v in _flat(ali["data"])):
            cl.add("huge_ids")
        if ref is None or ref["dtype"] != O.LONG:
            continue
        if len(ref["shape"]) == 1 and any(v >= 2 ** 31 - 1 for v in ref["data"]):
            cl.add("huge_ids")
        if len(ref["shape"]) == 2 and ref["shape"][1] == 3:
            for tok, b, e in ref["data"]:
                if tok >= 2 ** 31 - 1:
                    cl.add("huge_ids")
                if b < 0 and e < 0 and min(b, e) <= -100:
                    cl.add("extreme_negative_bounds")
                if max(b, e) >= 2 ** 31:
                    cl.add("huge_bounds")
    return sorted(cl)


def _nontrivial(ds_defects, fix):
    return len(ds_defects) >= 2 or (fix is not None and fix > 0 and any(d["min_fix"] == fix for d in ds_defects))


def _expect_members(ds, model):
    require(list(ds.utt_ids) == sorted(model["utts"]), "data set lists other utterances than the files present in every sub-directory",
            list(ds.utt_ids), sorted(model["utts"]))
    require(bool(ds.has_ali) == model["has_ali"] and bool(ds.has_ref) == model["has_ref"],
            "has_ali/has_ref do not reflect the sub-directories", [ds.has_ali, ds.has_ref],
            [model["has_ali"], model["has_ref"]])


def _strict_step(ds, data_dir, case, model, disk):
    """Strict validation raises ValueError iff the documented conditions are not met; never writes."""
    ds_defects = O.defects(model)
    if ds_defects:
        with expect_raises(ValueError, what="strict validation of a directory with %s" % sorted({d["code"] for d in ds_defects})):
            _validate(ds)
    else:
        _validate(ds)
    after = dirs.read_dir(data_dir, case)
    require(after == disk, "strict validation changed the directory", _diff(after, disk), None)
    return ds_defects


def _fix_step(ds, data_dir, case, model, disk, k):
    """Returns (new_model, new_disk, succeeded)."""
    ds_defects = O.defects(model)
    if O.repairable(ds_defects, k):
        want_model = O.repaired(model, k)
        _validate(ds, k)
        after = dirs.read_dir(data_dir, case)
        want = dirs.apply_model(disk, case, want_model)
        require(after == want, "directory after fix=%d differs from the documented repairs" % k, _diff(after, want), None)
        return want_model, after, True
    with expect_raises(ValueError, what="fix=%d on a directory with %s" % (
            k, sorted("%s/%s" % (d["code"], d["min_fix"]) for d in ds_defects if d["min_fix"] is None or d["min_fix"] > k))):
        _validate(ds, k)
    after = dirs.read_dir(data_dir, case)
    # whatever was written before the error: each file is either untouched or its documented repair
    parts = O.repair_parts(model, k)
    for key in sorted(set(after) | set(disk)):
        if after.get(key) == disk.get(key):
            continue
        sub, fn = key.split("/", 1) if "/" in key else (None, key)
        uid = fn[len(case["prefix"]):len(fn) - len(case["suffix"])]
        rep = parts.get(uid, {}).get(sub) if sub in ("ali", "ref") else None
        require(rep is not None and after.get(key) == rep,
                "a failed fix=%d pass left %s neither untouched nor repaired as documented" % (k, key),
                after.get(key), [disk.get(key), rep])
    new_model = dirs.model_of(after, case)
    return new_model, after, False


# ---------------------------------------------------------------- 1. strict acceptance


def _strict_strategy(tier):
    return dir_case(tier, plans=("valid", "valid", "repairable", "any", "any", "any", "any", "fatal1"), fix_choices=[None],
                    allow_huge=True)


@subcheck("C12", "strict_accept", _strict_strategy, quick=1000, thorough=15000,
          doc="directories with any combination of injected defects; strict validation raises ValueError iff the "
              "predicate written from conditions 1-6.3.2 rejects; directory untouched; discovery by prefix/suffix; "
              "stored tensors also as views (offset / column slice / transposed / strided), ids up to 2**62, "
              "boundaries down to -2**63 and beyond 2**32, float16 features",
          required_classes=["valid", "defects_1", "defects_2", "defects_3plus", "defect_ref_over", "defect_ali_long",
                            "defect_ref_dim_mixed", "defect_feat_dtype_mixed", "defect_ref_half",
                            "layout_offset", "layout_colslice", "layout_transposed", "layout_strided", "huge_ids", "names_of_affix_characters",
                            "extreme_negative_bounds", "huge_bounds", "feat_float16"])
def _strict_check(case):
    with dirs.scratch_root() as root:
        data_dir = os.path.join(root, "data")
        dirs.write_dir(data_dir, case)
        disk = dirs.read_dir(data_dir, case)
        model = dirs.model_of(disk, case)
        ds = _dataset(data_dir, case)
        _expect_members(ds, model)
        ds_defects = _strict_step(ds, data_dir, case, model, disk)
    cl = _classes(ds_defects, model, None) + _case_classes(case, model)
    if len(model["utts"]) < len(case["utts"]):
        cl.append("utt_missing_in_subdir")
    if case["distract"]:
        cl.append("distractor_files")
    return Info(nontrivial=_nontrivial(ds_defects, None), classes=cl)


def _ref_dims_enum(tier):
    """Every assignment of {1-D, empty 1-D (0,), 2-D, empty 2-D (0, 3)} to the references of 2 or 3 utterances."""
    kinds = ["1d", "1d_empty", "2d", "2d_empty"]
    out = []
    for n in (2, 3):
        for combo in itertools.product(kinds, repeat=n):
            for fix in (None, 1):
                utts = []
                for i, kd in enumerate(combo):
                    T = 3 + i
                    rows = [] if kd.endswith("empty") else ([[i, 0, 2], [i + 1, -1, -1]] if kd.startswith("2d") else [[i, -1, -1], [i + 1, -1, -1]])
                    utts.append({"feat": {"T": T, "F": 2, "dtype": "float32", "rank": 2, "layout": "own"}, "ali": None,
                                 "ref": {"dtype": "int64", "dim": 2 if kd.startswith("2d") else 1, "width": 3, "layout": "own", "rows": rows}})
                out.append({"prefix": "", "suffix": ".pt", "distract": False, "ali_dir": False, "ref_dir": True, "fix": fix,
                            "utts": utts, "pattern": list(combo)})
    return out


@subcheck("C12", "ref_dims_enum", _ref_dims_enum, 0, 0, exhaustive=True,
          doc="every assignment of {1-D, empty 1-D of shape (0,), 2-D, empty 2-D of shape (0, 3)} references to 2 or 3 otherwise "
              "well-formed utterances, strict and fix=1: accepted iff all references have one dimensionality (an empty "
              "reference has a dimensionality too); nothing written",
          required_classes=["mixed_dims_with_empty_reference", "one_dimensionality"])
def _ref_dims_check(case):
    with dirs.scratch_root() as root:
        data_dir = os.path.join(root, "data")
        dirs.write_dir(data_dir, case)
        disk = dirs.read_dir(data_dir, case)
        model = dirs.model_of(disk, case)
        ds = _dataset(data_dir, case)
        _expect_members(ds, model)
        if case["fix"] is None:
            ds_defects = _strict_step(ds, data_dir, case, model, disk)
        else:
            ds_defects = O.defects(model)
            _fix_step(ds, data_dir, case, model, disk, case["fix"])
    dims = {k[:2] for k in case["pattern"]}
    require(bool(ds_defects) == (len(dims) > 1), "oracle: mixed reference dimensionality must be the only defect here", ds_defects, sorted(dims))
    cl = ["one_dimensionality" if len(dims) == 1 else "mixed_dims"]
    if len(dims) > 1 and any(k.endswith("empty") for k in case["pattern"]):
        cl.append("mixed_dims_with_empty_reference")
    return Info(nontrivial=len(dims) > 1, classes=cl)


# ---------------------------------------------------------------- 2. fix


def _fix_strategy(tier):
    return dir_case(tier, plans=("valid", "repairable", "repairable", "repairable", "repairable", "any", "any", "any", "fatal1"),
                    fix_choices=FIXES + BIG_FIXES + ([4, 7] if tier == "thorough" else []), allow_huge=True)


@subcheck("C12", "fix_repair", _fix_strategy, quick=1500, thorough=20000,
          doc="same directories with fix=k: raises iff some defect is not among the documented repairs for k; "
              "otherwise files on disk == oracle's repaired tensors, strict validation then passes, a second fix "
              "pass changes nothing; a failed pass leaves every file untouched or repaired; stored tensors also as "
              "views (the repair is then made inside a view and written back), tolerances 1000 and 2**40",
          required_classes=["repaired", "unrepairable", "tolerance_exact", "tolerance_plus_one", "defect_ref_half",
                            "defect_ali_dtype", "defect_ref_over", "defect_ali_long",
                            "repair_on_view", "layout_offset", "layout_colslice", "layout_transposed", "layout_strided",
                            "fix_big", "fix_big_tolerance_exact", "huge_ids"])
def _fix_check(case):
    k = case["fix"]
    with dirs.scratch_root() as root:
        data_dir = os.path.join(root, "data")
        dirs.write_dir(data_dir, case)
        disk = dirs.read_dir(data_dir, case)
        model = dirs.model_of(disk, case)
        ds = _dataset(data_dir, case)
        _expect_members(ds, model)
        ds_defects = O.defects(model)
        new_model, new_disk, ok = _fix_step(ds, data_dir, case, model, disk, k)
        if ok:
            left = _strict_step(ds, data_dir, case, new_model, new_disk)
            require(not left, "oracle: repaired directory not valid", left, [])
            m2, d2, ok2 = _fix_step(ds, data_dir, case, new_model, new_disk, k)
            require(ok2 and d2 == new_disk, "second fix pass changed the directory", _diff(d2, new_disk), None)
            # a fresh data set object sees the same, valid, directory
            _strict_step(_dataset(data_dir, case), data_dir, case, new_model, new_disk)
        else:
            # still invalid for strict validation, and a second pass fails again
            _strict_step(ds, data_dir, case, new_model, new_disk)
            _fix_step(ds, data_dir, case, new_model, new_disk, k)
    cl = _classes(ds_defects, model, k) + _case_classes(case, model)
    cl.append("fix_%d" % k if k <= 64 else "fix_big")
    if k > 64 and "tolerance_exact" in cl:
        cl.append("fix_big_tolerance_exact")
    if ds_defects:
        cl.append("repaired" if ok else "unrepairable")
        by_id = {u.get("id", "u%d" % i): u for i, u in enumerate(case["utts"])}
        if ok and any(d["uid"] is not None and (by_id[d["uid"]].get(d["part"]) or {}).get("layout", "own") != "own"
                      for d in ds_defects):
            cl.append("repair_on_view")
    return Info(nontrivial=_nontrivial(ds_defects, k), classes=cl)


# ---------------------------------------------------------------- 3. histories


@st.composite
def _history_case(draw, tier):
    base = draw(dir_case(tier, plans=("valid", "valid", "valid", "repairable"), fix_choices=[1], allow_missing=False).filter(lambda c: c["utts"]))
    n = len(base["utts"])
    donor = draw(dir_case(tier, plans=("repairable", "repairable", "any", "fatal1"), fix_choices=FIXES, allow_missing=False).filter(lambda c: c["utts"]))
    ops = []
    m = draw(st.integers(2, 7 if tier == "quick" else 12))
    for _ in range(m):
        kind = draw(st.sampled_from(["validate", "fix", "fix", "corrupt", "corrupt", "info", "fresh"]))
        # two data set objects look at the same directory; ``who`` says which of them acts
        who = draw(st.sampled_from([0, 0, 1]))
        if kind == "fix":
            ops.append(["fix", draw(st.sampled_from(FIXES)), who])
        elif kind in ("validate", "fresh"):
            ops.append([kind, who])
        elif kind == "corrupt":
            i = draw(st.integers(0, n - 1))
            part = draw(st.sampled_from(["ali", "ref", "ref", "feat"]))
            src = draw(st.sampled_from(donor["utts"] + base["utts"]))
            ops.append(["corrupt", i, part, src])
        else:
            ops.append([kind])
    base["ops"] = ops
    base.pop("fix")
    return base


def _transplant(case, i, part, src):
    """utterance i's <part> replaced by a part generated for another utterance (lengths may now disagree)"""
    u = case["utts"][i]
    if part == "feat":
        new = dict(src["feat"])
        return "feat", new
    if u.get(part) is None or src.get(part) is None:
        return None, None
    return part, copy.deepcopy(src[part])


@subcheck("C12", "history", _history_case, quick=400, thorough=6000,
          doc="validate / fix(k) / corrupt-one-file / report histories on one directory seen by two data set objects "
              "(either may act, either may be re-created half-way); every step is compared with the reference model "
              "(accept, repair, raise, recount)",
          required_classes=["fix_after_corrupt", "repaired", "unrepairable", "second_object_acts",
                            "validate_after_other_objects_fix", "object_recreated", "layout_transposed", "layout_offset"])
def _history_check(case):
    cl = set()
    nontrivial = False
    with dirs.scratch_root() as root:
        data_dir = os.path.join(root, "data")
        dirs.write_dir(data_dir, case)
        disk = dirs.read_dir(data_dir, case)
        model = dirs.model_of(disk, case)
        objs = [_dataset(data_dir, case), _dataset(data_dir, case)]
        _expect_members(objs[0], model)
        corrupted = False
        last_fixer = None
        for op in case["ops"]:
            who = 0
            if op[0] in ("validate", "fresh") and len(op) == 2:
                who = op[1]
            elif op[0] == "fix" and len(op) == 3:
                who = op[2]
            ds = objs[who]
            if who:
                cl.add("second_object_acts")
            if op[0] == "fresh":
                objs[who] = _dataset(data_dir, case)
                _expect_members(objs[who], model)
                cl.add("object_recreated")
            elif op[0] == "validate":
                d = _strict_step(ds, data_dir, case, model, disk)
                cl.add("validate_rejects" if d else "validate_accepts")
                if last_fixer is not None and last_fixer != who:
                    cl.add("validate_after_other_objects_fix")
            elif op[0] == "fix":
                d = O.defects(model)
                model, disk, ok = _fix_step(ds, data_dir, case, model, disk, op[1])
                last_fixer = who
                if d:
                    cl.add("repaired" if ok else "unrepairable")
                    if corrupted:
                        cl.add("fix_after_corrupt")
                    if _nontrivial(d, op[1]):
                        nontrivial = True
                if ok:
                    left = _strict_step(ds, data_dir, case, model, disk)
                    require(not left, "oracle: repaired directory not valid", left, [])
            elif op[0] == "corrupt":
                _, i, part, src = op
                uid = case["utts"][i].get("id", "u%d" % i)
                if uid not in model["utts"]:
                    continue
                part, spec = _transplant(case, i, part, src)
                if part is None or model["utts"][uid].get(part) is None:
                    continue
                import torch

                t = {"feat": dirs.feat_tensor, "ali": dirs.ali_tensor, "ref": dirs.ref_tensor}[part](spec)
                torch.save(t, os.path.join(data_dir, part, dirs.fname(case, uid)))
                disk = dirs.read_dir(data_dir, case)
                model = dirs.model_of(disk, case)
                corrupted = True
            else:  # report on a valid directory equals the recount
                if O.defects(model):
                    continue
                got = _run_info(root, data_dir, case, [])
                _compare_report(got, O.report(model))
                cl.add("report")
                after = dirs.read_dir(data_dir, case)
                require(after == disk, "the report command changed the directory", _diff(after, disk), None)
        cl.update(_case_classes(case, model))
    return Info(nontrivial=nontrivial, classes=sorted(cl))


# ---------------------------------------------------------------- 4. report


def _run_info(root, data_dir, case, flags):
    """Runs get-torch-spect-data-dir-info in process; returns (lines, table)."""
    from pydrobert.torch import command_line

    out = os.path.join(root, "info.txt")
    args = [data_dir, out, "--file-suffix", case["suffix"]] + flags
    if case["prefix"]:
        args += ["--file-prefix", case["prefix"]]
    with dirs.quiet():
        rc = command_line.get_torch_spect_data_dir_info(args)
    require(not rc, "get-torch-spect-data-dir-info returned a non-zero status", rc, 0)
    with open(out) as f:
        lines = f.read().splitlines()
    table = {}
    for ln in lines:
        parts = ln.split(" ")
        require(len(parts) == 2 and parts[0] not in table, "report line is not a unique 'key value' pair", ln, None)
        try:
            table[parts[0]] = int(parts[1])
        except ValueError:
            raise Violation("report value is not an integer", ln, None)
    return lines, table


def _compare_report(got, want):
    lines, table = got
    keys = [ln.split(" ")[0] for ln in lines]
    require(keys == sorted(keys), "report keys are not written in sorted order", keys, sorted(keys))
    want = dict(want)
    if "num_filts" not in want:  # undefined without utterances
        table = {k: v for k, v in table.items() if k != "num_filts"}
    for k in sorted(set(table) | set(want)):
        require(table.get(k) == want.get(k), "report key %s differs from the recount of the stored tensors" % k,
                {k: table.get(k)}, {k: want.get(k)})


def _info_strategy(tier):
    return st.fixed_dictionaries({
        "dir": dir_case(tier, plans=("valid",) * 5 + ("repairable",) * 3 + ("any", "fatal1"), fix_choices=FIXES),
        "mode": st.sampled_from(["none", "none", "strict", "fix", "fix"]),
    })


@subcheck("C12", "info_report", _info_strategy, quick=800, thorough=10000,
          doc="get-torch-spect-data-dir-info (no flag / --strict / --fix k) on valid, repairable and invalid "
              "directories: raises iff validation must; output == key-by-key recount of the (repaired) stored "
              "tensors by the documented key definitions; --fix k repairs on disk like fix=k",
          required_classes=["valid", "report_after_repair", "cli_rejects", "has_ali", "has_ref_2d", "ref_boundaries",
                            "class_ge_10", "report_on_views", "layout_transposed", "layout_strided",
                            "extreme_negative_bounds"])
def _info_check(case):
    mode = case["mode"]
    case = case["dir"]
    k = case["fix"]
    cl = []
    with dirs.scratch_root() as root:
        data_dir = os.path.join(root, "data")
        dirs.write_dir(data_dir, case)
        disk = dirs.read_dir(data_dir, case)
        model = dirs.model_of(disk, case)
        ds_defects = O.defects(model)
        if mode == "none" and ds_defects:
            mode = "strict"  # "in an invalid data directory, the stored key/value pairs are not guaranteed"
        if mode == "fix":
            flags = ["--fix", str(k)] if k != 1 or len(case["utts"]) % 2 else ["--fix"]  # bare --fix means 1
            if O.repairable(ds_defects, k):
                want_model = O.repaired(model, k)
                got = _run_info(root, data_dir, case, flags)
                after = dirs.read_dir(data_dir, case)
                want = dirs.apply_model(disk, case, want_model)
                require(after == want, "directory after --fix %d differs from the documented repairs" % k,
                        _diff(after, want), None)
                _compare_report(got, O.report(want_model))
                cl.append("report_after_repair" if ds_defects else "report_fix_valid")
                model = want_model
            else:
                with expect_raises(ValueError, what="--fix %d on a directory with %s" % (
                        k, sorted("%s/%s" % (d["code"], d["min_fix"]) for d in ds_defects))):
                    _run_info(root, data_dir, case, flags)
                cl.append("cli_rejects")
        else:
            flags = ["--strict"] if mode == "strict" else []
            if ds_defects:
                with expect_raises(ValueError, what="--strict on a directory with %s" % sorted(d["code"] for d in ds_defects)):
                    _run_info(root, data_dir, case, flags)
                cl.append("cli_rejects")
            else:
                got = _run_info(root, data_dir, case, flags)
                _compare_report(got, O.report(model))
                cl.append("report_" + mode)
            after = dirs.read_dir(data_dir, case)
            require(after == disk, "the report command without --fix changed the directory", _diff(after, disk), None)
    cl += _classes(ds_defects, model, k if mode == "fix" else None)
    views = _case_classes(case, model)
    cl += views
    if "cli_rejects" not in cl and any(c.startswith("layout_") for c in views):
        cl.append("report_on_views")
    utts = model["utts"].values()
    if model["has_ali"]:
        cl.append("has_ali")
    if model["has_ref"] and "cli_rejects" not in cl:
        two_d = any(len(p["ref"]["shape"]) == 2 for p in utts)
        cl.append("has_ref_2d" if two_d else "has_ref_1d")
        if two_d and any(r[1] >= 0 and r[2] >= 0 for p in utts if len(p["ref"]["shape"]) == 2 for r in p["ref"]["data"]):
            cl.append("ref_boundaries")
        if two_d and any(r[1] == r[2] >= 0 for p in utts if len(p["ref"]["shape"]) == 2 for r in p["ref"]["data"]):
            cl.append("ref_empty_segment")
        if all(p["ref"]["shape"][0] == 0 for p in utts if len(p["ref"]["shape"]) >= 1):
            cl.append("all_refs_empty")
    if "cli_rejects" not in cl:
        rep = O.report(model)
        if rep["max_ali_class"] >= 10 or rep["max_ref_class"] >= 10:
            cl.append("class_ge_10")
    return Info(nontrivial=_nontrivial(ds_defects, k if mode == "fix" else None) or
                (not ds_defects and len(model["utts"]) >= 2 and (model["has_ali"] or model["has_ref"])), classes=cl)


# ---------------------------------------------------------------- 5. sos / eos


LONG_R = [15, 16, 17, 31, 32, 33, 63, 64, 65, 127, 128, 129, 255, 256, 257, 1023, 1024, 1025, 2049]
SOS_HUGE_TOK = [2 ** 31 - 1, 2 ** 32 + 8, 2 ** 32 + 9, 2 ** 40, 2 ** 62]    # never equal to a start / end symbol
SOS_HUGE_SPECIAL = [2 ** 31, 2 ** 40 + 1]
SOS_EXTREME_BOUND = [-2 ** 63, -100, 2 ** 40, 2 ** 62]


def _gen_rows(R, a, b):
    """R rows expanded from three integers (a pure function): tokens 1..6, boundaries unknown / small"""
    rows = []
    for j in range(R):
        unknown = (j + b) % 3 == 0
        rows.append([1 + (a * j + b) % 6, -1 if unknown else j % 6, -1 if unknown else j % 6 + (j + a) % 3])
    return rows


@st.composite
def _sos_strategy(draw, tier):
    dtype = draw(st.sampled_from(["int64", "int64", "int32"]))
    wide = dtype == "int64" and draw(st.sampled_from([False, False, True]))   # values beyond 32 bits
    tok = st.integers(1, 6)
    start, end = st.integers(-1, 5), st.integers(-1, 7)
    # (0 is a legal symbol id and a falsy one; tokens are 1..6 so that no symbol is among them)
    special = st.one_of(st.none(), st.integers(7, 9), st.integers(7, 12), st.integers(-2, -1), st.just(0), st.just(0))
    if wide:
        tok = st.one_of(tok, tok, st.sampled_from(SOS_HUGE_TOK))
        start = st.one_of(start, start, st.sampled_from(SOS_EXTREME_BOUND))
        end = st.one_of(end, end, st.sampled_from(SOS_EXTREME_BOUND))
        special = st.one_of(special, st.sampled_from(SOS_HUGE_SPECIAL))
    row = st.tuples(tok, start, end).map(list)
    ref = st.one_of(st.just([]), st.lists(row, min_size=0, max_size=4), st.lists(row, min_size=1, max_size=6))
    if draw(st.sampled_from([False, False, False, True])):
        # a long transcript, expanded from three integers by _gen_rows
        sizes = LONG_R[:15] if tier == "quick" else LONG_R
        ref = st.one_of(ref, st.fixed_dictionaries({
            "R": st.one_of(st.sampled_from(sizes), st.sampled_from(LONG_R)), "a": st.integers(1, 6), "b": st.integers(0, 6)}))
    refs = draw(st.lists(ref, min_size=1, max_size=4))
    return {
        "kind": draw(st.sampled_from(["spect", "spect", "lang"])),
        "dim": draw(st.sampled_from([1, 2])),
        "tokens_only": draw(st.booleans()),
        "suppress_alis": draw(st.booleans()),
        "suppress_uttids": draw(st.booleans()),
        "with_ali": draw(st.booleans()),
        "dtype": dtype,
        "sos": draw(special), "eos": draw(special),
        "refs": refs,
        # memory layout of each stored reference (dirs.with_layout)
        "layouts": [draw(st.sampled_from(LAYOUT_POOL)) for _ in refs],
        "by_index": draw(st.booleans()),
        "prefix": draw(st.sampled_from(["", "p_"])),
        "suffix": draw(st.sampled_from([".pt", ".x"])),
        # call patterns: every item read twice; a different hypothesis already written under the same name
        "reread": draw(st.booleans()),
        "overwrite": draw(st.booleans()),
        "symbol_route": draw(st.sampled_from(["params", "params", "keywords", "sos_keyword", "eos_keyword"])),
    }


@subcheck("C12", "sos_eos_roundtrip", _sos_strategy, quick=1500, thorough=20000,
          doc="SpectDataSet / LangDataSet over 1-D and 2-D references including empty ones: reading yields "
              "[sos] + tokens + [eos] (2-D: rows with -1 boundaries); write_hyp of what was read, loaded raw, "
              "equals the bare tokens; tuple layout for every suppress_* combination; stored references also as "
              "views, 15..2049 tokens long, ids / symbols / boundaries beyond 32 bits; items read twice, an older "
              "hypothesis of the same name overwritten, the tensor handed to write_hyp left unchanged",
          required_classes=["empty_ref_with_sos_or_eos", "symbol_id_zero", "symbols_by_constructor_keyword", "dim_2", "dim_1", "lang", "spect", "tokens_only_2d",
                            "layout_offset", "layout_colslice", "layout_transposed", "layout_strided",
                            "tokens_only_2d_on_view", "long_ref", "long_ref_ge_1023", "wide_values", "reread",
                            "overwrite"])
def _sos_check(case):
    import torch
    from pydrobert.torch import data

    sos, eos = case["sos"], case["eos"]  # never among the tokens (1..6)
    if sos is not None and eos == sos:
        eos = sos + 13  # the two symbols are distinct
    dim, tokens_only = case["dim"], case["tokens_only"]
    cl = ["dim_%d" % dim, case["kind"]]
    refs_in = [(_gen_rows(r["R"], r["a"], r["b"]) if isinstance(r, dict) else r) for r in case["refs"]]
    layouts = case.get("layouts") or ["own"] * len(refs_in)
    longest = max(len(r) for r in refs_in)
    if longest >= 15:
        cl.append("long_ref")
    if longest >= 1023:
        cl.append("long_ref_ge_1023")
    if any(abs(v) >= 2 ** 31 for r in refs_in for row in r for v in (row if dim == 2 else row[:1])) or \
            any(x is not None and abs(x) >= 2 ** 31 for x in (sos, eos)):
        cl.append("wide_values")
    for lay in set(layouts):
        if lay != "own":
            cl.append("layout_" + lay)
    if dim == 2 and tokens_only and any(lay != "own" for lay in layouts):
        cl.append("tokens_only_2d_on_view")
    if case.get("reread"):
        cl.append("reread")
    if case.get("overwrite"):
        cl.append("overwrite")
    empty_special = False
    with dirs.scratch_root() as root:
        data_dir = os.path.join(root, "data")
        dcase = {"prefix": case["prefix"], "suffix": case["suffix"], "ali_dir": case["with_ali"], "ref_dir": True, "utts": []}
        for i, rows in enumerate(refs_in):
            T = 3 + i
            dcase["utts"].append({
                "feat": {"T": T, "F": 2, "dtype": "float32", "rank": 2, "base": 8 * i},
                "ali": {"dtype": "int64", "rank": 1, "vals": [i] * T},
                "ref": {"dtype": case["dtype"], "dim": dim, "width": 3, "rows": rows, "layout": layouts[i]},
            })
        dirs.write_dir(data_dir, dcase)
        hyp_dir = os.path.join(root, "hyp")
        if case["kind"] == "spect":
            # how the symbols are configured: through the params object, through the (deprecated but supported)
            # constructor keywords, or one each way
            route = case.get("symbol_route", "params")
            kw_sos = sos if route in ("keywords", "sos_keyword") else None
            kw_eos = eos if route in ("keywords", "eos_keyword") else None
            params = data.SpectDataParams(sos=None if kw_sos is not None else sos, eos=None if kw_eos is not None else eos)
            if route != "params" and (kw_sos is not None or kw_eos is not None):
                cl.append("symbols_by_constructor_keyword")
            with dirs.quiet():
                ds = data.SpectDataSet(data_dir, file_prefix=case["prefix"], file_suffix=case["suffix"], params=params,
                                       suppress_alis=case["suppress_alis"], suppress_uttids=case["suppress_uttids"],
                                       tokens_only=tokens_only, sos=kw_sos, eos=kw_eos)
        else:
            params = data.LangDataParams(sos=sos, eos=eos)
            ds = data.LangDataSet(os.path.join(data_dir, "ref"), params, file_prefix=case["prefix"],
                                  file_suffix=case["suffix"], suppress_uttids=case["suppress_uttids"],
                                  tokens_only=tokens_only)
        require(len(ds) == len(refs_in), "len(data set)", len(ds), len(refs_in))
        for i, rows in enumerate(refs_in):
            uid = "u%d" % i
            item = ds[i]
            if case.get("reread"):
                item = ds[i]  # the judged one is the second reading
            # ---- tuple layout
            if case["kind"] == "spect":
                want_len = 2 + (not case["suppress_alis"]) + (not case["suppress_uttids"])
                require(isinstance(item, tuple) and len(item) == want_len, "tuple layout", len(item), want_len)
                feat = item[0]
                require(feat.tolist() == dirs.feat_tensor(dcase["utts"][i]["feat"]).tolist(), "feat of utterance %s" % uid, None, None)
                pos = 1
                if not case["suppress_alis"]:
                    ali = item[1]
                    if case["with_ali"]:
                        require(ali is not None and ali.tolist() == [i] * (3 + i), "ali of utterance %s" % uid,
                                None if ali is None else ali.tolist(), [i] * (3 + i))
                    else:
                        require(ali is None, "ali without an ali directory", ali, None)
                    pos = 2
                ref = item[pos]
                if not case["suppress_uttids"]:
                    require(item[-1] == uid, "utterance id attached to the tuple", item[-1], uid)
            else:
                if case["suppress_uttids"]:
                    ref = item
                else:
                    require(isinstance(item, tuple) and len(item) == 2 and item[1] == uid, "(ref, uttid) layout", None, uid)
                    ref = item[0]
            # ---- sos / eos insertion
            if dim == 2 and not tokens_only:
                bare = [list(r) for r in rows]
                want = ([[sos, -1, -1]] if sos is not None else []) + bare + ([[eos, -1, -1]] if eos is not None else [])
                bare_shape = [len(rows), 3]
            else:
                bare = [r[0] for r in rows]
                want = ([sos] if sos is not None else []) + bare + ([eos] if eos is not None else [])
                bare_shape = [len(rows)]
            if not rows and (sos is not None or eos is not None):
                empty_special = True
            require(isinstance(ref, torch.Tensor) and ref.tolist() == want,
                    "reference read with sos=%r eos=%r is not [sos] + tokens + [eos]" % (sos, eos),
                    ref.tolist() if isinstance(ref, torch.Tensor) else repr(ref), want)
            require(ref.dim() == len(bare_shape), "dimensionality of the reference read", list(ref.shape), bare_shape)
            # ---- write_hyp strips them again
            utt = i if case["by_index"] else uid
            keep = ref.clone()
            default_dir = case["kind"] == "spect" and i % 2 == 0  # default: <data_dir>/hyp
            pth = os.path.join(os.path.join(data_dir, "hyp") if default_dir else hyp_dir, case["prefix"] + uid + case["suffix"])
            if case.get("overwrite"):
                decoy = torch.full((2, 3) if ref.dim() == 2 else (2,), 5, dtype=torch.long)
                if default_dir:
                    ds.write_hyp(utt, decoy)
                else:
                    ds.write_hyp(utt, decoy, hyp_dir)
            if default_dir:
                ds.write_hyp(utt, ref)
            else:
                ds.write_hyp(utt, ref, hyp_dir)
            require(os.path.isfile(pth), "write_hyp did not write <prefix><utt><suffix>", sorted(os.listdir(root)), pth)
            require(ref.dtype == keep.dtype and ref.shape == keep.shape and bool((ref == keep).all()),
                    "write_hyp changed the tensor it was given", ref.tolist(), keep.tolist())
            back = torch.load(pth)
            require(back.tolist() == bare and list(back.shape) == bare_shape and back.dtype == torch.long,
                    "hypothesis written from a read reference does not load as the bare tokens",
                    dirs.stored(back), {"dtype": "torch.int64", "shape": bare_shape, "data": bare})
    if empty_special:
        cl.append("empty_ref_with_sos_or_eos")
    if dim == 2 and tokens_only:
        cl.append("tokens_only_2d")
    if sos is not None and eos is not None:
        cl.append("sos_and_eos")
    if sos == 0 or eos == 0:
        cl.append("symbol_id_zero")
    return Info(nontrivial=empty_special, classes=cl)


# ---------------------------------------------------------------- 6. write_hyp on noisy hypotheses


# garbage in the ignored regions (before the last sos / after the first eos) beyond plain tokens; written as strings
# in the case, mapped to numbers by the hypothesis' dtype (none of them converts to the start or end symbol)
JUNK = ["nan", "inf", "-inf", "fbig", "hi_sos", "hi_eos", "neg", "imax"]


def _junk_value(x, dtype):
    """the number a case element stands for in a hypothesis of this dtype"""
    if not isinstance(x, str):
        return x
    if dtype == "int32":
        return {"neg": -5, "hi_sos": -2 ** 31 + 8, "hi_eos": -2 ** 31 + 9, "big": 2 ** 31 - 1}.get(x, 2 ** 31 - 1)
    if dtype == "int64":
        return {"neg": -5, "hi_sos": 2 ** 32 + 8, "hi_eos": 2 ** 32 + 9, "big": 2 ** 40 + 3, "-inf": -2 ** 63}.get(x, 2 ** 62)
    f32 = dtype == "float32"
    return {"nan": float("nan"), "inf": float("inf"), "-inf": float("-inf"), "fbig": 3e38 if f32 else 1e300,
            "hi_sos": float(2 ** 32 + (4096 if f32 else 8)), "hi_eos": float(2 ** 32 + (8192 if f32 else 9)), "neg": -5.0,
            "imax": float(2 ** 62), "big": float(2 ** 24 if f32 else 2 ** 40 + 3)}[x]


def _strip_strategy(tier):
    tok = st.integers(0, 5)
    junk = st.sampled_from(JUNK)
    body_tok = st.one_of(tok, tok, tok, st.just("big"))   # "big": an id beyond 32 bits where the dtype can hold it
    return st.fixed_dictionaries({
        "dim": st.sampled_from([1, 2]),
        "sos": st.one_of(st.none(), st.just(8)),
        "eos": st.one_of(st.none(), st.just(9)),
        # garbage before the start symbol may repeat sos; after the end symbol may repeat eos
        "before": st.lists(st.one_of(tok, st.just(8), junk), max_size=4),
        "body": st.one_of(st.lists(tok, max_size=5), st.lists(body_tok, max_size=5)),
        "after": st.lists(st.one_of(tok, st.just(9), junk), max_size=4),
        "has_sos": st.booleans(), "has_eos": st.booleans(),
        "dtype": st.sampled_from(["int64", "int64", "int32", "float32", "float64"]),
        "kind": st.sampled_from(["spect", "lang"]),
        "layout": st.sampled_from(LAYOUT_POOL),
        # long hypotheses: the body is repeated until it has about this many tokens
        "stretch": st.sampled_from([0, 0, 0, 0, 17, 65, 257, 1025]),
    })


@subcheck("C12", "write_hyp_strip", _strip_strategy, quick=800, thorough=8000,
          doc="hypotheses garbage + [sos] + body + [eos] + garbage (garbage may repeat sos before / eos after, hold "
              "NaN / inf / ids beyond 32 bits): stored file == body as a long tensor (documented: drop through the "
              "last sos, from the first eos); hypothesis int32/int64/float32/float64, also as a view, up to ~1000 tokens",
          required_classes=["garbage_before", "garbage_after", "empty_body", "junk_non_finite", "junk_beyond_32_bits",
                            "body_beyond_32_bits", "layout_offset", "layout_colslice", "layout_transposed",
                            "layout_strided", "long_body"])
def _strip_check(case):
    import torch
    from pydrobert.torch import data

    sos, eos, dim, dtype = case["sos"], case["eos"], case["dim"], case["dtype"]
    body = [_junk_value(x, dtype) for x in case["body"]]
    if case.get("stretch") and body:
        body = (body * (case["stretch"] // len(body) + 1))[:case["stretch"]]
    before = [_junk_value(x, dtype) for x in case["before"]]
    after = [_junk_value(x, dtype) for x in case["after"]]
    seq = list(body)
    cl = []
    used = []
    if sos is not None and case["has_sos"]:
        seq = before + [sos] + seq
        used += case["before"]
        if before:
            cl.append("garbage_before")
    if eos is not None and case["has_eos"]:
        seq = seq + [eos] + after
        used += case["after"]
        if after:
            cl.append("garbage_after")
    if not body:
        cl.append("empty_body")
    if dtype.startswith("float") and any(x in ("nan", "inf", "-inf", "fbig") for x in used):
        cl.append("junk_non_finite")
    if dtype != "int32" and any(x in ("hi_sos", "hi_eos", "imax") for x in used):
        cl.append("junk_beyond_32_bits")
    if dtype in ("int64", "float64") and "big" in case["body"]:
        cl.append("body_beyond_32_bits")
    if len(body) >= 17:
        cl.append("long_body")
    if case.get("layout", "own") != "own":
        cl.append("layout_" + case["layout"])

    def rows(tokens):
        return [[t, j, j + 1] for j, t in enumerate(tokens)] if dim == 2 else list(tokens)

    hyp_rows = rows(seq)
    # the body rows as they appear inside the full hypothesis
    if sos is not None and case["has_sos"]:
        off = len(before) + 1
    else:
        off = 0
    want = [[int(x) for x in r] if dim == 2 else int(r) for r in hyp_rows[off:off + len(body)]]
    shape = [len(body), 3] if dim == 2 else [len(body)]
    hyp = torch.tensor(hyp_rows, dtype=dirs.DTYPES[dtype]).reshape([len(seq)] + shape[1:])
    hyp = dirs.with_layout(hyp, case.get("layout"))
    keep = hyp.clone()
    with dirs.scratch_root() as root:
        data_dir = os.path.join(root, "data")
        dcase = {"prefix": "", "suffix": ".pt", "ali_dir": False, "ref_dir": True,
                 "utts": [{"feat": {"T": 2, "F": 1, "dtype": "float32", "rank": 2},
                           "ref": {"dtype": "int64", "dim": 1, "width": 3, "rows": [[0, -1, -1]]}}]}
        dirs.write_dir(data_dir, dcase)
        hyp_dir = os.path.join(root, "hyp")
        if case["kind"] == "spect":
            with dirs.quiet():
                ds = data.SpectDataSet(data_dir, params=data.SpectDataParams(sos=sos, eos=eos), suppress_alis=True,
                                       tokens_only=True)
        else:
            ds = data.LangDataSet(os.path.join(data_dir, "ref"), data.LangDataParams(sos=sos, eos=eos))
        ds.write_hyp("special", hyp, hyp_dir)
        back = torch.load(os.path.join(hyp_dir, "special.pt"))
    same = (hyp == keep) | ((hyp != hyp) & (keep != keep))  # NaN garbage stays NaN
    require(hyp.dtype == keep.dtype and hyp.shape == keep.shape and bool(same.all()),
            "write_hyp changed the tensor it was given", hyp.tolist(), keep.tolist())
    require(back.dtype == torch.long and back.tolist() == want and list(back.shape) == shape,
            "stored hypothesis is not the part between the last sos and the first eos, as a long tensor",
            dirs.stored(back), {"dtype": "torch.int64", "shape": shape, "data": want})
    rule = [c for c in cl if c in ("garbage_before", "garbage_after", "empty_body")]
    return Info(nontrivial=bool(rule) and bool(seq), classes=cl + ["dim_%d" % dim])


# ---------------------------------------------------------------- 7. sizes across implementation thresholds

SIZES = [15, 16, 17, 31, 32, 33, 63, 64, 65, 127, 128, 129, 255, 256, 257, 1023, 1024, 1025, 2049]
MAX_IDS = [3, 9, 10, 11, 99, 100, 101, 999, 1000, 1001]    # the report pads its keys to the width of the largest id
POSITIONS = ["last", "first", "mid", "p16", "p1024"]


def _pick(table):
    """one entry of ``table``, chosen through a single integer (the table's weights are then respected much better
    than by nested sampled_from in budgets of a few dozen cases); shrinks towards table[0]"""
    table = list(table)
    return st.integers(0, 10 ** 6).map(lambda v: table[v % len(table)])


def _size_table(tier, heavy):
    """sizes from SIZES; ``heavy`` = every unit of size costs three files on disk, so the big ones are made rare"""
    if not heavy:
        return SIZES[:15] + SIZES   # every size, the cheap ones twice
    if tier == "quick":
        return SIZES[:9] * 5 + SIZES[9:12] * 4 + SIZES[12:15] * 2   # 1023..2049 utterances: thorough tier only
    return SIZES[:9] * 2 + SIZES[9:12] * 4 + SIZES[12:15] * 4 + SIZES[15:]


def _large_strategy(mode):
    def strat(tier):
        many = mode == "many_utts"
        general = st.fixed_dictionaries(fields(tier, many, False))
        # one case in six puts a reference / alignment defect deep into the directory: at the last utterance of
        # >= 255, or in the last row of >= 1024 (where a loop that stops early, or works in blocks, would not look)
        deep = st.fixed_dictionaries(fields(tier, many, True))
        return st.integers(0, 5).flatmap(lambda v: deep if v == 5 else general)

    def fields(tier, many, deep):
        big_n = SIZES[9:15] if tier == "quick" else SIZES[12:]
        return ({
            "mode": st.just(mode),
            # many utterances of a few frames, or a few utterances of many frames / tokens
            "n": _pick(big_n if deep else _size_table(tier, True)) if many else st.integers(1, 2),
            "T": st.integers(1, 3) if many else _pick(_size_table(tier, False)),
            "R": st.integers(1 if deep else 0, 3) if many else _pick(SIZES[16:] if deep else [0, 1, 2, 3] * 3 + _size_table(tier, False)),
            "F": st.integers(1, 2),
            "fdt": st.sampled_from(["float32", "float64"]),
            "a": st.integers(1, 7), "b": st.integers(0, 5),
            "max_ali": _pick(MAX_IDS), "max_ref": _pick(MAX_IDS),
            "ali_dir": _pick([True, True, True, False]), "ref_dir": _pick([True] if deep else [True, True, True, True, False]),
            "ref_dim": _pick([2] if deep else [2, 2, 2, 1]),
            "layout": _pick(LAYOUT_POOL),
            # one defect (or none) at a position that is resolved against the sizes: utterance, then row / overshoot
            "defect": _pick(["ref_over", "ref_half", "ref_reversed", "ref_over", "ref_half"] if deep else
                            [None, None, None, "ali_long", "ali_long", "ref_over", "ref_over", "ref_over", "ref_half",
                             "ref_half", "ref_reversed", "ali_up", "ref_up", "feat_width", "ali_short"]),
            "upos": _pick((["last"] if many else ["first"]) if deep else ["first", "last", "last"] + POSITIONS),
            "rpos": _pick(["last", "p1024"] if deep else ["first", "last", "last", "last"] + POSITIONS),
            "over": _pick([1, 2, 5, 6]),
            "fix": _pick([None, None, 0, 1, 2, 5, 5]),
            "prefix": st.just(""), "suffix": st.just(".pt"),
        })
    return strat


def _resolve(pos, n):
    """an index 0..n-1 from a position word"""
    if n <= 0:
        return None
    return {"last": n - 1, "first": 0, "mid": n // 2, "p16": min(16, n - 1), "p1024": min(1024, n - 1)}[pos]


def _expand_large(case):
    """The directory description (as for dirs.write_dir) a large case stands for - a pure function of the case."""
    n, T, R, F, a, b = case["n"], case["T"], case["R"], case["F"], case["a"], case["b"]
    ma, mr = case["max_ali"], case["max_ref"]
    utts = []
    for i in range(n):
        Ti = T + (i * a) % 2 if case["mode"] == "many_utts" else T - (i % 2)
        Ri = (R + i * b) % 4 if case["mode"] == "many_utts" else max(R - 2 * i, 0)
        vals = [((a * t) // 3 + b * i) % (ma + 1) for t in range(Ti)]
        rows = []
        for j in range(Ri):
            tok = (a * j + b + i) % (mr + 1)
            s0 = (j * Ti) // max(Ri, 1)
            e0 = min(Ti, s0 + 1 + (j + a) % 3)
            if (j + i + b) % 4 == 0:
                s0 = e0 = -1 - (j % 3)
            rows.append([tok, s0, e0])
        utts.append({"feat": {"T": Ti, "F": F, "dtype": case["fdt"], "rank": 2, "base": (8 * i) % 256, "layout": case["layout"]},
                     "ali": {"dtype": "int64", "rank": 1, "vals": vals, "layout": case["layout"]},
                     "ref": {"dtype": "int64", "dim": case["ref_dim"], "width": 3, "rows": rows, "layout": case["layout"]}})
    # the largest ids occur (in the utterance the defect does not touch first)
    if n:
        last = utts[-1]
        if last["ali"]["vals"]:
            last["ali"]["vals"][-1] = ma
        if last["ref"]["rows"]:
            last["ref"]["rows"][-1][0] = mr
    d = case["defect"]
    where = None
    if d is not None and n:
        ui = _resolve(case["upos"], n)
        u = utts[ui]
        Ti, k = u["feat"]["T"], case["over"]
        rows = u["ref"]["rows"]
        if d in ("ref_over", "ref_half", "ref_reversed") and not rows and case["ref_dim"] == 2:
            rows.append([0, -1, -1])
        ri = _resolve(case["rpos"], len(rows))
        if d == "ali_long":
            u["ali"]["vals"] = u["ali"]["vals"] + [0] * k
        elif d == "ali_short":
            u["ali"]["vals"] = u["ali"]["vals"][:-1]
        elif d == "ali_up":
            u["ali"]["dtype"] = "int32"
        elif d == "ref_up":
            u["ref"]["dtype"] = "int32"
        elif d == "feat_width":
            u["feat"]["F"] = F + 1
        elif ri is not None and case["ref_dim"] == 2:
            if d == "ref_over":
                rows[ri][1:] = [min(max(rows[ri][1], 0), Ti), Ti + k]
            elif d == "ref_half":
                rows[ri][1:] = [-1, min(ri, Ti)]
            elif d == "ref_reversed":
                rows[ri][1:] = [Ti, Ti - 1]
        where = [ui, ri]
    return {"prefix": case["prefix"], "suffix": case["suffix"], "ali_dir": case["ali_dir"], "ref_dir": case["ref_dir"],
            "utts": utts}, where


def _large_check(case):
    dcase, where = _expand_large(case)
    k = case["fix"]
    cl = ["n_%d" % case["n"]] if case["mode"] == "many_utts" else ["T_%d" % case["T"]] + (["R_%d" % case["R"]] if case["R"] > 3 else [])
    with dirs.scratch_root() as root:
        data_dir = os.path.join(root, "data")
        dirs.write_dir(data_dir, dcase)
        disk = dirs.read_dir(data_dir, dcase)
        model = dirs.model_of(disk, dcase)
        ds = _dataset(data_dir, dcase)
        _expect_members(ds, model)
        ds_defects = O.defects(model)
        ok = not ds_defects
        if k is None:
            _strict_step(ds, data_dir, dcase, model, disk)
            if ds_defects:
                cl.append("rejected")
        else:
            # (fewer passes over the files than in fix_repair: a directory of 1025 utterances is 3075 files)
            model, disk, ok = _fix_step(ds, data_dir, dcase, model, disk, k)
            if ok:
                require(not O.defects(model), "oracle: repaired directory not valid", O.defects(model), [])
                _validate(ds)  # strict validation accepts what the fix pass left
                if ds_defects:
                    cl.append("repaired")
            else:
                cl.append("unrepairable")
        if ok:
            got = _run_info(root, data_dir, dcase, [])
            want = O.report(model)
            _compare_report(got, want)
            cl.append("report")
            for key in ("max_ali_class", "max_ref_class"):
                if want[key] >= 99:
                    cl.append("report_ids_ge_99")
                if want[key] >= 999:
                    cl.append("report_ids_ge_999")
    for d in ds_defects:
        cl.append("defect_" + d["code"].split(":")[0])
        if ":" in d["code"] and int(d["code"].split(":")[1]) >= 1023:
            cl.append("defect_at_row_ge_1023")
        if d["uid"] is not None and where is not None and where[0] >= 126:
            cl.append("defect_at_utt_ge_126")
    big = max(case["n"], case["T"], case["R"])
    for lim in (127, 255, 1023, 2049):
        if big >= lim:
            cl.append("size_ge_%d" % lim)
    if case["layout"] != "own":
        cl.append("on_views")
    if not ds_defects:
        cl.append("valid")
    return Info(nontrivial=_nontrivial(ds_defects, k) or (not ds_defects and len(model["utts"]) >= 2), classes=sorted(set(cl)))


subcheck("C12", "large_many_utts", _large_strategy("many_utts"), quick=70, thorough=400,
         doc="15..257 utterances (15/16/17, 31/32/33, ... 255/256/257; thorough: also 1023/1024/1025 and 2049; files "
             "expanded from a few integers by a pure function) with at most one defect placed at the first / middle / last "
             "/ 16th / 1024th utterance: strict validation, fix=k, and the report compared with the same reference as "
             "the small directories",
         required_classes=["size_ge_127", "valid", "repaired", "report", "report_ids_ge_99", "report_ids_ge_999",
                           "defect_at_utt_ge_126"])(_large_check)

subcheck("C12", "large_long_utt", _large_strategy("long_utt"), quick=200, thorough=3000,
         doc="1..2 utterances of 15..2049 frames and 0..2049 reference tokens (same size list, same expansion), class ids "
             "up to 9/10/11, 99/100/101, 999/1000/1001 (key padding of the report), at most one defect at the first / "
             "middle / last / 16th / 1024th row: strict validation, fix=k, report",
         required_classes=["size_ge_255", "size_ge_1023", "size_ge_2049", "valid", "repaired", "rejected", "report",
                           "report_ids_ge_99", "report_ids_ge_999", "defect_at_row_ge_1023", "on_views"])(_large_check)
