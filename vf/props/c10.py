"""C10 Slicing policies yield the documented windows; token chunks are slice-relative.

Observed at pydrobert.torch.functional.slice_spect_data / chunk_token_sequences_by_slices (and
the module forms) and at the chunk-torch-spect-data-dir command.  The oracles
(vf/oracles/c10_slices.py, vf/oracles/c09_pad.py) are loop transcriptions of the documented
policy text, one sequence at a time.

Besides the values, the generators vary what must not matter (vf/padlay.py): the memory layout of
every tensor argument (and of the tensors stored in the data directory), garbage in the regions the
documentation says are not read (labels behind in_lens, tokens behind in_lens / ref_lens, the token
ids under policy ref, the feature values under policy fixed), frame numbers beyond the int32 range,
repeated use of the same tensors / module object / output directory, and - in the `*_large`
sub-checks - sizes that cross 16 / 32 / 64 / 128 / 256 / 1024 / 2049 along the sequence, batch, token,
lobe, segment-count and utterance-count dimensions, expanded from a few generated integers.
"""
from __future__ import annotations

import os
import shutil
import tempfile
import warnings

import numpy as np
from hypothesis import strategies as st

from ..core import Info, Reject, Violation, expect_raises, matcher, require, subcheck
from ..oracles import c09_pad as P
from ..oracles import c10_slices as O
from .. import gen
from .. import padlay as L

WINDOWS = ["symmetric", "causal", "future"]
V_LAYS = ["contiguous", "contiguous", "offset", "strided", "expanded"]
M_LAYS = ["contiguous", "contiguous", "offset", "inner", "strided", "transposed", "last_strided"]  # 2-D / 3-D inputs
R_LAYS = M_LAYS + ["expanded"]
PATTERNS = [None, None, None, "twice", "reuse"]
BIG_SCALE = 2 ** 31 + 7  # frame numbers beyond the int32 range (the documents say: long tensors)
BAD_LABELS = [-1, 2 ** 62, -(2 ** 62), 0, 2 ** 31]


def _lib():
    import pydrobert.torch.functional as F
    import pydrobert.torch.modules as M

    return F, M


class _Drawn:
    def __init__(self, draw):
        self.draw = draw

    def __call__(self, lo, hi):
        return self.draw(st.integers(lo, hi))

    def choice(self, seq):
        return self.draw(st.sampled_from(seq))


class _Det:
    """Integer source that is a pure function of (seed, idx, call number)."""

    def __init__(self, seed, *idx):
        self.seed, self.idx, self.k = seed, tuple(idx), 0

    def __call__(self, lo, hi):
        self.k += 1
        return L.pick(lo, hi, self.seed, *(self.idx + (self.k,)))

    def choice(self, seq):
        return seq[self(0, len(seq) - 1)]


def _groups(tier):
    return L.GROUPS + ([4096] if tier == "thorough" else [])


def _flip0(t):
    return None if t is None else t.flip(0)


def _slicer_outs(case, inp, in_lens, other_lens):
    """The outputs to judge (each must be the documented windows): one call; pattern 'twice': a second call with
    the very same tensor objects; pattern 'reuse': the same module object (or function) is first used on another
    legal batch (the rows in reverse order)."""
    F, M = _lib()
    if case.get("entry") == "module":
        m = M.SliceSpectData(case["policy"], case["window"], case["valid"], case["lobe"])
        call = lambda a, b, c: m(a, b, c)  # noqa: E731
    else:
        call = lambda a, b, c: F.slice_spect_data(a, b, c, case["policy"], case["window"], case["valid"], case["lobe"])  # noqa: E731
    pattern = case.get("pattern")
    if pattern == "reuse":
        call(inp.flip(0), _flip0(in_lens), _flip0(other_lens))
    outs = [call(inp, in_lens, other_lens)]
    if pattern == "twice":
        outs.append(call(inp, in_lens, other_lens))
    return outs


def _windows_of(slices, sources):
    require(slices.ndim == 2 and slices.shape[1] == 2 and sources.ndim == 1 and sources.shape[0] == slices.shape[0],
            "slices / sources do not have shapes (M, 2) / (M,)", [list(slices.shape), list(sources.shape)], "(M, 2), (M,)")
    return [(int(src), int(s), int(e)) for src, (s, e) in zip(sources.tolist(), slices.tolist())]


def _brief(ws):
    """Window lists can be long in the `*_large` sub-checks: report the first 40."""
    ws = list(ws)
    return ws if len(ws) <= 40 else {"count": len(ws), "first_40": ws[:40]}


def _first_diff(got, exp):
    for i, (a, b) in enumerate(zip(got, exp)):
        if a != b:
            return {"index": i, "got": a, "expected": b, "counts": [len(got), len(exp)]}
    return {"index": min(len(got), len(exp)), "counts": [len(got), len(exp)]}


def _cfg_classes(case):
    out = ["window_" + case["window"], "valid_only" if case["valid"] else "not_valid_only", "lobe_%d" % min(case["lobe"], 3)]
    lab = L.thresh_label(case["lobe"])
    if lab:
        out.append("lobe_at_" + lab)
    if case.get("pattern"):
        out.append("pattern_" + case["pattern"])
    return out


def _lt(v, lay=None, role=None, classes=None):
    import torch

    if v is None:
        return None
    t = L.lay(torch.tensor(v, dtype=torch.long), lay)
    c = L.layout_class(role or "lens", t, lay)
    if c and classes is not None:
        classes.append(c)
    return t


def _lay_input(t, case, classes, role="input"):
    lay = (case.get("lay") or {}).get("input")
    out = L.lay(t, lay)
    c = L.layout_class(role, out, lay)
    if c:
        classes.append(c)
    return out


@st.composite
def _extras(draw, in_lays=M_LAYS):
    """What must not matter.  One case in four is plain."""
    if draw(st.sampled_from([True, False, False, False])):
        return {}
    return {"lay": {"input": draw(st.sampled_from(in_lays)), "lens": draw(st.sampled_from(V_LAYS)),
                    "other": draw(st.sampled_from(V_LAYS)), "slices": draw(st.sampled_from(M_LAYS))},
            "garbage": draw(st.booleans()), "pattern": draw(st.sampled_from(PATTERNS))}


# ------------------------------------------------------------------ policy "fixed"

FILLS = [0, 0, "nan", "inf", "-inf"]


def _fixed_check(case):
    import torch

    N, T, lens = case["N"], case["T"], case["lens"]
    classes = _cfg_classes(case) + L.size_classes(T=T, N=N)
    fill = case.get("fill", 0)
    # the fixed policy reads only the shape of its input: the feature values are whatever the caller has
    inp = torch.full((N, T) + tuple(case.get("trail", [])), float(fill), dtype=getattr(torch, case.get("dtype", "float32")))
    if fill != 0:
        classes.append("features_nonfinite")
    inp = _lay_input(inp, case, classes)
    lens_t = _lt(lens, (case.get("lay") or {}).get("lens"), "lens", classes)
    eff = lens if lens is not None else [T] * N
    exp = []
    crossing = False
    for n in range(N):
        for s, e in O.fixed_windows(eff[n], case["window"], case["valid"], case["lobe"]):
            exp.append((n, s, e))
            if s < 0 or e > eff[n]:
                crossing = True
    for k, (slices, sources) in enumerate(_slicer_outs(case, inp, lens_t, None)):
        where = "" if k == 0 else " (second call with the same tensors)"
        got = _windows_of(slices, sources)
        require(got == exp, "fixed policy: windows differ from the documented ones" + where,
                _brief(got) if len(got) <= 40 else _first_diff(got, exp), _brief(exp))
        if case["valid"]:
            for n, s, e in got:
                require(0 <= s and e <= eff[n], "valid-only window leaves its sequence" + where, (n, s, e), eff[n])
    classes.append("lens_given" if lens is not None else "lens_omitted")
    if crossing:
        classes.append("window_crosses_end")
    if any(v == 0 for v in eff):
        classes.append("len0")
    if any(v == 1 for v in eff):
        classes.append("len1")
    if lens is None and not case["valid"] and case["window"] == "symmetric" and T % (case["lobe"] + 1) == (case["lobe"] + 1) // 2 \
            and case["lobe"] % 2 == 1:
        classes.append("mid_at_T_when_lens_omitted")
    return Info(case["lobe"] > 0 and crossing, sorted(set(classes)))


def _fixed_enum(tier):
    maxT, maxL = (12, 4) if tier == "quick" else (24, 6)
    out = []
    for T in range(0, maxT + 1):
        for lobe in range(0, maxL + 1):
            for window in WINDOWS:
                for valid in (True, False):
                    base = {"policy": "fixed", "T": T, "window": window, "valid": valid, "lobe": lobe, "entry": "fn"}
                    out.append(dict(base, N=2, lens=None))
                    # every length 0..T in one batch
                    out.append(dict(base, N=T + 1, lens=list(range(T, -1, -1)) if (T + lobe) % 2 else list(range(T + 1))))
    return out


subcheck("C10", "slice_fixed_enum", _fixed_enum, 0, 0, exhaustive=True,
         doc="policy fixed: every (T<=12|24, lobe<=4|6, window, valid) with in_lens omitted and with all lengths 0..T in one batch; "
             "oracle = documented stride / size / first offset / middle-index rule, per sequence",
         required_classes=["window_crosses_end", "lens_omitted", "len0", "len1", "mid_at_T_when_lens_omitted"])(_fixed_check)


@st.composite
def _fixed_cases(draw, tier):
    big = tier == "thorough"
    N = draw(st.integers(1, 3 if not big else 5))
    T = draw(st.integers(0, 10 if not big else 30))
    lens = draw(st.one_of(st.none(), st.lists(st.integers(0, T), min_size=N, max_size=N)))
    c = {"policy": "fixed", "N": N, "T": T, "lens": lens, "trail": draw(st.sampled_from([[], [2], [1, 2]])),
         "window": draw(st.sampled_from(WINDOWS)), "valid": draw(st.booleans()),
         "lobe": draw(st.integers(0, 4 if not big else 8)), "entry": draw(st.sampled_from(["fn", "module"]))}
    c.update(draw(_extras()))
    if c.pop("garbage", False):
        c["fill"] = draw(st.sampled_from(FILLS))
        c["dtype"] = draw(st.sampled_from(["float32", "float64", "int64"])) if c["fill"] == 0 else draw(st.sampled_from(["float32", "float64"]))
    return c


subcheck("C10", "slice_fixed", lambda tier: _fixed_cases(tier), 600, 20000,
         doc="policy fixed on generated (N, T incl. 0, trailing dims, in_lens given|omitted, window, valid, lobe 0..4|8); also with "
             "non-finite feature values, float64 / int64 input, non-contiguous / offset layouts of input and in_lens, repeated calls",
         required_classes=["window_crosses_end", "lens_omitted", "lens_given", "features_nonfinite", "input_transposed",
                           "input_inner", "lens_strided", "pattern_twice", "pattern_reuse"])(_fixed_check)


@st.composite
def _fixed_large_cases(draw, tier):
    c = {"policy": "fixed", "small": [draw(st.integers(0, 11)), draw(st.integers(0, 11))],
            "seed": draw(st.integers(0, 10 ** 6)), "lens_kind": draw(st.sampled_from([None, "any", "any", "near_full", "extremes"])),
            "window": draw(st.sampled_from(WINDOWS)), "valid": draw(st.booleans()), "entry": draw(st.sampled_from(["fn", "module"])),
            "lay": draw(st.one_of(st.none(), st.fixed_dictionaries({"input": st.sampled_from(M_LAYS), "lens": st.sampled_from(V_LAYS)}))),
            "pattern": draw(st.sampled_from(PATTERNS))}
    c["dim"], c["size"] = L.dim_size_from(c, ["T", "N", "lobe"], _groups(tier))
    return c


def _expand_lens(kind, N, T, seed, lo=0):
    if kind is None:
        return None
    if kind == "extremes":
        opts = [lo, min(max(lo, 1), T), T, max(T - 1, lo)]
        return [opts[L.pick(0, 3, seed, 1, n)] for n in range(N)]
    if kind == "near_full":
        return [max(lo, T - L.pick(0, 2, seed, 1, n)) for n in range(N)]
    return [L.pick(lo, T, seed, 1, n) for n in range(N)]


def _fixed_large_expand(c):
    a, b = c["small"]
    size = c["size"]
    if c["dim"] == "T":
        N, T = 1 + a % 3, size
        lobe = [0, 1, 2, 3, 7, 15, 16, 17, size // 2, size - 1, size, size + 1][b]
    elif c["dim"] == "N":
        N, T, lobe = size, a % 9, b % 5
    else:
        lobe = size
        N, T = 1 + a % 2, [0, 1, lobe - 1, lobe, lobe + 1, 2 * lobe, 2 * lobe + 1, 2 * lobe + 2, 3 * lobe + 5, lobe // 2, 3 * lobe, lobe + 2][b]
    return dict(c, N=N, T=T, lobe=lobe, lens=_expand_lens(c["lens_kind"], N, T, c["seed"]), trail=[] if a % 2 else [2])


@subcheck("C10", "slice_fixed_large", lambda tier: _fixed_large_cases(tier), 400, 6000,
          doc="policy fixed with one of T / N / lobe at 15..17, 31..33, 63..65, 127..129, 255..257, 1023..1025, 2049 (thorough: also "
              "4095..4097); in_lens omitted or expanded from (seed, row) by a pure integer hash; same per-sequence oracle",
          required_classes=["T_at_16", "T_at_1024", "T_at_2049", "N_at_1024", "N_at_2049", "lobe_at_16", "lobe_at_1024",
                            "window_crosses_end", "lens_omitted", "lens_given"])
def _fixed_large_check(case):
    return _fixed_check(_fixed_large_expand(case))


# ------------------------------------------------------------------ policy "ali"


def _ali_check(case):
    import torch

    ali, lens = case["ali"], case["lens"]
    N, T = len(ali), case["T"]
    classes = _cfg_classes(case) + L.size_classes(T=T, N=N)
    eff = lens if lens is not None else [T] * N
    data = ali
    if case.get("garbage") and lens is not None and any(v < T for v in lens):
        # labels behind in_lens are not part of the sequence: any value, changing at every frame
        data = [list(row) for row in ali]
        for n in range(N):
            for t in range(lens[n], T):
                data[n][t] = BAD_LABELS[(n + t) % len(BAD_LABELS)]
        classes.append("garbage_beyond_len")
    inp = _lay_input(torch.tensor(data, dtype=torch.long).view(N, T), case, classes)
    lens_t = _lt(lens, (case.get("lay") or {}).get("lens"), "lens", classes)
    exp = []
    nruns = []
    clipped = False
    for n in range(N):
        seq = ali[n][:eff[n]]
        segs = O.runs(seq)
        nruns.append(len(segs))
        ws = O.ali_windows(seq, case["window"], case["valid"], case["lobe"])
        exp.extend((n, s, e) for s, e in ws)
        if case["lobe"] and 0 < len(segs) <= case["lobe"]:
            clipped = True
    for k, (slices, sources) in enumerate(_slicer_outs(case, inp, lens_t, None)):
        where = "" if k == 0 else " (second call with the same tensors)"
        got = _windows_of(slices, sources)
        require(got == exp, "ali policy: windows differ from the documented ones" + where,
                _brief(got) if len(got) <= 40 else _first_diff(got, exp), _brief(exp))
        if case["valid"]:
            for n, s, e in got:
                require(0 <= s and e <= eff[n], "valid-only window leaves its sequence" + where, (n, s, e), eff[n])
    classes.append("lens_given" if lens is not None else "lens_omitted")
    if case.get("labels"):
        classes.append("labels_" + case["labels"])
    if any(r >= 3 for r in nruns):
        classes.append("runs_ge_3")
    lab = L.thresh_label(max(nruns + [0]))
    if lab:
        classes.append("runs_at_" + lab)
    lab = L.thresh_label(sum(nruns))
    if lab:
        classes.append("total_runs_at_" + lab)
    if any(v == T for v in eff) and T > 0:
        classes.append("full_length_sequence")
    if any(v == 0 for v in eff):
        classes.append("len0")
    if clipped:
        classes.append("lobe_ge_runs")
    if case["lobe"] and case["valid"] and sum(nruns) < case["lobe"] * (2 if case["window"] == "symmetric" else 1):
        classes.append("lobe_offset_gt_total_runs")
    return Info(any(r >= 3 for r in nruns) and case["lobe"] > 0, sorted(set(classes)))


def _ali_enum(tier):
    maxT, maxL = (5, 3) if tier == "quick" else (7, 4)
    out = []
    k = 0
    for T in range(1, maxT + 1):
        rows = []
        for bits in range(2 ** T):
            seq = [(bits >> i) & 1 for i in range(T)]
            for Ln in range(0, T + 1):
                rows.append((seq, Ln))
        for lobe in range(0, maxL + 1):
            for window in WINDOWS:
                for valid in (True, False):
                    k += 1
                    # rotate so that batches pair different rows under different configurations
                    rot = rows[k % len(rows):] + rows[:k % len(rows)]
                    for i in range(0, len(rot), 6):
                        chunk = rot[i:i + 6]
                        out.append({"policy": "ali", "T": T, "ali": [r[0] for r in chunk], "lens": [r[1] for r in chunk],
                                    "window": window, "valid": valid, "lobe": lobe, "entry": "fn"})
    return out


subcheck("C10", "slice_ali_enum", _ali_enum, 0, 0, exhaustive=True,
         doc="policy ali: every binary alignment of length T<=5|7 x every in_len 0..T (batches of 6 rows) x lobe<=3|4 x window x valid; "
             "oracle = maximal runs, m-th window from run m-lobe to m+lobe, dropped (valid-only) or clipped to existing runs",
         required_classes=["runs_ge_3", "full_length_sequence", "len0", "lobe_ge_runs"])(_ali_check)


@st.composite
def _ali_cases(draw, tier):
    big = tier == "thorough"
    N = draw(st.integers(1, 3 if not big else 5))
    T = draw(st.integers(1, 10 if not big else 24))
    K = draw(st.integers(1, 3))
    ali = []
    for _ in range(N):
        # run-length construction so that long runs and many runs both occur
        seq = []
        while len(seq) < T:
            lab = draw(st.integers(0, K - 1))
            seq.extend([lab] * draw(st.integers(1, 4)))
        ali.append(seq[:T])
    lens = draw(st.one_of(st.none(), st.lists(st.one_of(st.integers(0, T), st.just(T)), min_size=N, max_size=N)))
    c = {"policy": "ali", "T": T, "ali": ali, "lens": lens, "window": draw(st.sampled_from(WINDOWS)),
         "valid": draw(st.booleans()), "lobe": draw(st.integers(0, 4)), "entry": draw(st.sampled_from(["fn", "module"]))}
    c.update(draw(_extras()))
    if draw(st.sampled_from([True, False, False])):
        # labels are arbitrary long values: shifted below zero / far beyond int32, or spread 2^32 apart
        c["labels"] = draw(st.sampled_from(["negative", "huge", "wide", "wide"]))
        f = {"negative": lambda v: v - 2, "huge": lambda v: v + 2 ** 40, "wide": lambda v: (v - 1) * 2 ** 32}[c["labels"]]
        c["ali"] = [[f(v) for v in row] for row in ali]
    return c


subcheck("C10", "slice_ali", lambda tier: _ali_cases(tier), 800, 20000,
         doc="policy ali on generated alignments (alphabet 1..3, any run structure, N<=3|5, T<=10|24, in_lens given|omitted, lobe 0..4); "
             "also with garbage labels behind in_lens, negative / huge label values, non-contiguous / offset layouts, repeated calls",
         required_classes=["runs_ge_3", "full_length_sequence", "lens_omitted", "lobe_offset_gt_total_runs", "garbage_beyond_len",
                           "input_transposed", "input_inner", "input_offset", "lens_strided", "pattern_twice", "pattern_reuse",
                           "labels_wide", "labels_negative"]
         )(_ali_check)


@st.composite
def _ali_large_cases(draw, tier):
    c = {"policy": "ali", "small": [draw(st.integers(0, 11)), draw(st.integers(0, 11))],
            "seed": draw(st.integers(0, 10 ** 6)), "lens_kind": draw(st.sampled_from([None, "any", "near_full", "extremes"])),
            "run_kind": draw(st.sampled_from(["short", "long", "mixed", "unit", "single"])),
            "window": draw(st.sampled_from(WINDOWS)), "valid": draw(st.booleans()), "entry": draw(st.sampled_from(["fn", "module"])),
            "lay": draw(st.one_of(st.none(), st.fixed_dictionaries({"input": st.sampled_from(M_LAYS), "lens": st.sampled_from(V_LAYS)}))),
            "garbage": draw(st.booleans()), "pattern": draw(st.sampled_from(PATTERNS))}
    c["dim"], c["size"] = L.dim_size_from(c, ["T", "N", "lobe", "runs"], _groups(tier))
    return c


def _expand_ali_row(kind, T, seed, n):
    src = _Det(seed, 2, n)
    seq = []
    lab = src(0, 2)
    while len(seq) < T:
        k = kind if kind != "mixed" else src.choice(["short", "short", "long", "unit"])
        if k == "single":
            run = T
        elif k == "unit":
            run = 1
        elif k == "long":
            run = src(1, max(T // 4, 1))
        else:
            run = src(1, 3)
        seq.extend([lab] * run)
        lab = (lab + src(1, 2)) % 3  # a different label: every run is maximal
    return seq[:T]


def _ali_large_expand(c):
    a, b = c["small"]
    size, kind = c["size"], c["run_kind"]
    if c["dim"] == "T":
        N, T, lobe = 1 + a % 3, size, [0, 1, 2, 3, 4, 7, 15, 16, 17, 33, 64, size][b]
    elif c["dim"] == "N":
        N, T, lobe = size, 1 + a % 6, b % 4
    elif c["dim"] == "lobe":
        # the number of runs in the batch crosses lobe and 2 * lobe
        lobe, N, kind = size, 1 + a % 2, "unit"
        T = max(1, [lobe - 1, lobe, lobe + 1, lobe + 2, 2 * lobe - 1, 2 * lobe, 2 * lobe + 1, 2 * lobe + 2, lobe // 2, 3 * lobe, lobe + 5, 1][b])
        if T > 2100:
            T = lobe + 1 + b % 2
    else:
        # number of runs of one sequence at the threshold
        N, T, lobe, kind = 1 + a % 2, size, b % 5, "unit"
    ali = [_expand_ali_row(kind, T, c["seed"], n) for n in range(N)]
    return dict(c, T=T, ali=ali, lobe=lobe, lens=_expand_lens(c["lens_kind"], N, T, c["seed"]))


@subcheck("C10", "slice_ali_large", lambda tier: _ali_large_cases(tier), 300, 5000,
          doc="policy ali with one of T / N / lobe / number of runs at 15..17, ..., 1023..1025, 2049 (thorough: also 4095..4097); "
              "alignments (short / long / unit / single / mixed runs) and in_lens are expanded from (seed, row) by a pure integer hash; "
              "same run-based oracle",
          required_classes=["T_at_16", "T_at_1024", "T_at_2049", "N_at_1024", "N_at_2049", "lobe_at_16", "lobe_at_1024",
                            "runs_at_16", "runs_at_1024", "runs_ge_3", "lobe_ge_runs"])
def _ali_large_check(case):
    return _ali_check(_ali_large_expand(case))


# ------------------------------------------------------------------ policy "ref"

TRIPLE_KINDS = ["known", "known", "known", "empty", "missing", "half_missing", "inverted", "beyond"]


def _triple(src, r, frames):
    kind = src.choice(TRIPLE_KINDS)
    if kind == "missing":
        s, e = -1, -1
    elif kind == "half_missing":
        v = src(0, frames)
        s, e = ((-1, v), (v, -1))[src(0, 1)]
    elif kind == "empty":
        s = e = src(0, frames)
    elif kind == "inverted":
        s = src(1, frames + 1)
        e = src(0, s - 1)
    elif kind == "beyond":
        s = src(0, frames + 2)
        e = src(s, frames + 3)
    else:
        s = src(0, frames)
        e = src(s, frames)
    return [100 + r, s, e]


@st.composite
def _triples(draw, R, frames, ordered=False):
    src = _Drawn(draw)
    return [_triple(src, r, frames) for r in range(R)]


def _well_defined_default(refs, lens, R):
    """In place: make the default length well defined - the counted known segment with the latest end goes last."""
    for n in range(len(refs)):
        cnt = R if lens is None else lens[n]
        known = [t for t in refs[n][:cnt] if t[1] >= 0 and t[2] >= 0]
        if known:
            last = max(known, key=lambda t: t[2])
            i = refs[n].index(last)
            refs[n][i], refs[n][cnt - 1] = refs[n][cnt - 1], refs[n][i]


@st.composite
def _ref_cases(draw, tier):
    big = tier == "thorough"
    N = draw(st.integers(1, 3 if not big else 4))
    R = draw(st.integers(1, 5 if not big else 8))
    frames = draw(st.integers(0, 10))
    same_rows = draw(st.sampled_from([True] + [False] * 7))
    if same_rows:
        N = max(N, 2)
        row = draw(_triples(R, frames))
        refs = [[list(t) for t in row] for _ in range(N)]
    else:
        refs = [draw(_triples(R, frames)) for _ in range(N)]
    lens = draw(st.one_of(st.none(), st.lists(st.integers(0, R), min_size=N, max_size=N)))
    other = draw(st.one_of(st.none(), st.lists(st.integers(max(frames - 2, 0), frames + 1), min_size=N, max_size=N)))
    if other is None and draw(st.sampled_from([True, True, False])) and not same_rows:
        _well_defined_default(refs, lens, R)
    c = {"policy": "ref", "R": R, "refs": refs, "lens": lens, "other_lens": other, "window": draw(st.sampled_from(WINDOWS)),
         "valid": draw(st.booleans()), "lobe": draw(st.integers(0, 4)), "entry": draw(st.sampled_from(["fn", "module"]))}
    c.update(draw(_extras(["expanded"] if same_rows else M_LAYS)))
    if draw(st.sampled_from([True, False, False, False])):
        c["scale"] = BIG_SCALE
    if draw(st.sampled_from([True, False, False])):
        c["tok_ids"] = draw(st.sampled_from(["negative", "huge", "zero"]))
    return c


def _default_other_len(triples):
    """other_lens omitted: 'the final segment's end time' (comment in the source; DESIGN.md: the end of the
    last counted segment).  Returns (value, determined): determined iff the last counted triple is known and
    no counted known segment ends later, i.e. every reasonable reading of 'the length implied by the
    segments' gives the same number."""
    if not triples:
        return 0, True
    known = [e for _, s, e in triples if s >= 0 and e >= 0]
    _, s, e = triples[-1]
    if s >= 0 and e >= 0 and e == max(known):
        return e, True
    return None, False


def _prepare_refs(case, refs, lens, R, classes):
    """(oracle refs, library refs): frame numbers scaled beyond int32 when the case asks for it (both); in the
    library's copy the ignored token ids replaced and the triples behind in_lens / ref_lens overwritten with
    garbage (known-looking segments with huge or negative numbers)."""
    S = case.get("scale") or 1
    if S != 1:
        refs = [[[tok, s * S if s >= 0 else s, e * S if e >= 0 else e] for tok, s, e in row] for row in refs]
        classes.append("frames_beyond_int32")
    lib = [[list(t) for t in row] for row in refs]
    if case.get("garbage") and lens is not None and any(v < R for v in lens):
        junk = [[5, 0, 2 ** 62], [-3, 0, 1], [7, -(2 ** 62), 2 ** 62], [2 ** 62, 1, 2], [0, 0, 0], [-1, -1, -1]]
        for n in range(len(lib)):
            for r in range(lens[n], R):
                lib[n][r] = list(junk[(n + r) % len(junk)])
        classes.append("garbage_beyond_len")
    return refs, lib


def _ref_check(case):
    import torch

    refs, lens, other = case["refs"], case["lens"], case["other_lens"]
    N, R = len(refs), case["R"]
    classes = _cfg_classes(case) + L.size_classes(R=R, N=N) + ["lens_given" if lens is not None else "lens_omitted",
                                                               "other_lens_given" if other is not None else "other_lens_omitted"]
    refs, lib = _prepare_refs(case, refs, lens, R, classes)
    S = case.get("scale") or 1
    if other is not None:
        other = [v * S for v in other]
    if case.get("tok_ids"):
        # policy ref: "input[..., 0] the token sequence (ignored)"
        v = {"negative": -1, "huge": 2 ** 62, "zero": 0}[case["tok_ids"]]
        lib = [[[v if case["tok_ids"] != "negative" else -1 - r, s, e] for r, (_, s, e) in enumerate(row)] for row in lib]
        classes.append("token_ids_" + case["tok_ids"])
    lay = case.get("lay") or {}
    inp = _lay_input(torch.tensor(lib, dtype=torch.long).view(N, R, 3), case, classes)
    lens_t = _lt(lens, lay.get("lens"), "lens", classes)
    other_t = _lt(other, lay.get("other"), "other", classes)
    eff = lens if lens is not None else [R] * N
    items, bound = [], []
    undetermined = False
    for n in range(N):
        counted = refs[n][:eff[n]]
        if other is not None:
            ol = other[n]
        else:
            ol, det = _default_other_len(counted)
            if not det:
                undetermined = True
        bound.append(ol)
        with_len = O.ref_windows(counted, ol, case["window"], case["valid"], case["lobe"])
        if len(with_len) < len(O.ref_windows(counted, None, case["window"], case["valid"], case["lobe"])):
            classes.append("dropped_by_length")
        items.extend((v, (n, s, e)) for v, s, e in with_len)
        if any((s < 0 or e < 0) for _, s, e in counted):
            classes.append("missing_segment")
        if any(s == e and s >= 0 for _, s, e in counted):
            classes.append("empty_segment")
    nwin = 0
    for k, (slices, sources) in enumerate(_slicer_outs(case, inp, lens_t, other_t)):
        where = "" if k == 0 else " (second call with the same tensors)"
        got = _windows_of(slices, sources)
        nwin = len(got)
        if undetermined:
            # the documents do not define the default length here: only the part that every reading
            # shares is asserted (each returned window is one of the windows without a length limit, in order)
            loose = [(O.EITHER, x) for v, x in items]
            require(O.match_optional(loose, got), "ref policy (other_lens omitted): a returned window is not a documented window" + where,
                    _brief(got), _brief([x for _, x in loose]))
            continue
        require(O.match_optional(items, got), "ref policy: windows differ from the documented ones" + where, _brief(got),
                _brief([(v,) + x for v, x in items]))
        if case["valid"]:
            for n, s, e in got:
                require(0 <= s and e <= bound[n], "valid-only window leaves its sequence" + where, (n, s, e), bound[n])
    if undetermined:
        return Info(False, sorted(set(classes + ["default_length_undetermined"])))
    if any(v == O.EITHER for v, _ in items):
        classes.append("start_at_length_undetermined")
    nontrivial = "missing_segment" in classes and nwin > 0
    return Info(nontrivial, sorted(set(classes)))


subcheck("C10", "slice_ref", lambda tier: _ref_cases(tier), 1200, 30000,
         doc="policy ref on generated (N, R, 3) segment lists incl. missing (-1), half-missing, empty, inverted, overlapping, unsorted, "
             "beyond-the-length segments; in_lens / other_lens given|omitted; oracle = each known segment widened by the lobe and kept "
             "under the documented conditions; also with garbage triples behind in_lens, negative / huge token ids (documented as "
             "ignored), frame numbers beyond int32, non-contiguous / offset / expanded layouts, repeated calls",
         required_classes=["missing_segment", "other_lens_omitted", "other_lens_given", "lens_omitted", "empty_segment",
                           "dropped_by_length", "garbage_beyond_len", "token_ids_negative", "token_ids_huge", "frames_beyond_int32",
                           "input_transposed", "input_inner", "input_offset", "input_last_strided", "input_expanded",
                           "lens_strided", "other_strided", "pattern_twice", "pattern_reuse"])(_ref_check)


@st.composite
def _ref_large_cases(draw, tier):
    c = {"policy": "ref", "small": [draw(st.integers(0, 11)), draw(st.integers(0, 11))],
            "seed": draw(st.integers(0, 10 ** 6)), "lens_kind": draw(st.sampled_from([None, "any", "near_full", "extremes"])),
            "other_kind": draw(st.sampled_from([None, "given", "given"])),
            "window": draw(st.sampled_from(WINDOWS)), "valid": draw(st.booleans()), "entry": draw(st.sampled_from(["fn", "module"])),
            "lay": draw(st.one_of(st.none(), st.fixed_dictionaries({"input": st.sampled_from(M_LAYS), "lens": st.sampled_from(V_LAYS),
                                                                    "other": st.sampled_from(V_LAYS)}))),
            "garbage": draw(st.booleans()), "scale": draw(st.sampled_from([None, None, BIG_SCALE])),
            "tok_ids": draw(st.sampled_from([None, None, "negative", "huge"])), "pattern": draw(st.sampled_from(PATTERNS))}
    c["dim"], c["size"] = L.dim_size_from(c, ["R", "N", "lobe"], _groups(tier))
    return c


def _ref_large_dims(c):
    a, b = c["small"]
    size = c["size"]
    if c["dim"] == "R":
        return 1 + a % 3, size, [0, 1, 2, 3, 4, 7, 16, 33, 64, 100, 1, 0][b]
    if c["dim"] == "N":
        return size, 1 + a % 5, b % 5
    return 1 + a % 3, 1 + b % 6, size


def _ref_large_expand(c):
    N, R, lobe = _ref_large_dims(c)
    frames = max(4, [R // 2, R, 3 * R, 10][c["small"][0] % 4]) + (lobe if c["dim"] == "lobe" else 0)
    refs = [[_triple(_Det(c["seed"], 3, n, r), r, frames) for r in range(R)] for n in range(N)]
    lens = _expand_lens(c["lens_kind"], N, R, c["seed"])
    other = None
    if c["other_kind"] == "given":
        other = [L.pick(max(frames - 2, 0), frames + 1, c["seed"], 4, n) for n in range(N)]
    elif L.pick(0, 2, c["seed"], 5):
        _well_defined_default(refs, lens, R)
    return dict(c, R=R, refs=refs, lens=lens, other_lens=other, lobe=lobe)


@subcheck("C10", "slice_ref_large", lambda tier: _ref_large_cases(tier), 400, 6000,
          doc="policy ref with one of R (tokens) / N / lobe at 15..17, ..., 1023..1025, 2049 (thorough: also 4095..4097); the triples "
              "(known / empty / missing / half-missing / inverted / beyond) and lengths are expanded from (seed, row, token) by a pure "
              "integer hash; same oracle",
          required_classes=["R_at_16", "R_at_1024", "R_at_2049", "N_at_1024", "N_at_2049", "lobe_at_16", "lobe_at_1024",
                            "missing_segment", "other_lens_omitted", "other_lens_given"])
def _ref_large_check(case):
    return _ref_check(_ref_large_expand(case))


# ------------------------------------------------------------------ token chunking

TOK_WHAT = "token boundaries are not relative to the slice start"
SLICE_KINDS = ["any", "any", "zero_start", "cover", "cover", "empty", "on_boundary", "on_boundary", "wide"]


def _tok_slice(src, kind, row, R, frames):
    if kind == "zero_start":
        a, b = 0, src(0, frames + 3)
    elif kind == "cover":
        a, b = src(-3, 0), src(frames, frames + 3)
    elif kind == "empty":
        a = b = src(-2, frames + 2)
    elif kind == "wide":
        a = src(-3, max(frames // 2, 0))
        b = src(a, frames + 3)
    elif kind == "on_boundary":
        r = src(0, R - 1)
        a = max(row[r][1], 0)
        b = max(row[r][2], a) + src(0, 2)
    else:
        a = src(-3, frames + 3)
        b = src(-3, frames + 3)
    return [a, b]


@st.composite
def _tok_cases(draw, tier):
    big = tier == "thorough"
    N = draw(st.integers(1, 3 if not big else 5))
    R = draw(st.integers(1, 5 if not big else 8))
    frames = draw(st.integers(0, 10))
    same_rows = draw(st.sampled_from([True] + [False] * 7))  # what the chunk command passes: one utterance expanded
    if same_rows:
        N = max(N, 2)
        row = draw(_triples(R, frames))
        refs = [[list(t) for t in row] for _ in range(N)]
    else:
        refs = [draw(_triples(R, frames)) for _ in range(N)]
    neg_ids = draw(st.sampled_from([True] + [False] * 5))
    for n in range(N):  # distinct, non-contiguous token ids so that a kept token is identified by its id
        for r in range(R):
            refs[n][r][0] = 7 * r + 3 + (0 if same_rows else n)
            if neg_ids:
                refs[n][r][0] = -refs[n][r][0]
    src = _Drawn(draw)
    slices = [_tok_slice(src, draw(st.sampled_from(SLICE_KINDS)), refs[n], R, frames) for n in range(N)]
    c = {"R": R, "refs": refs, "slices": slices,
         "ref_lens": draw(st.one_of(st.none(), st.lists(st.integers(0, R), min_size=N, max_size=N))),
         "partial": draw(st.booleans()), "retain": draw(st.booleans()), "entry": draw(st.sampled_from(["fn", "module"]))}
    c.update(draw(_extras(["expanded"] if same_rows else M_LAYS)))
    if draw(st.sampled_from([True, False, False, False])):
        c["scale"] = BIG_SCALE
    return c


def _check_tokens(triples, a, b, partial, retain, got, where):
    """got: observed (tok, s, e) of one chunk.  Selection first (by token id), then the boundaries."""
    items = [(O.token_verdict(s, e, a, b, partial), tok) for tok, s, e in triples]
    ids = [g[0] for g in got]
    require(O.match_optional(items, ids), "%s: kept tokens are not exactly the tokens whose segments are %s the slice, in order"
            % (where, "overlapping" if partial else "contained in"),
            {"kept": _brief(ids), "slice": [a, b]}, _brief([[v, tok] + [s, e] for (v, tok), (_, s, e) in zip(items, triples)]))
    src = {tok: (s, e) for tok, s, e in triples}
    source = [[tok] + list(src[tok]) for tok in ids]
    shift = 0 if retain else a
    exp = [[tok, s - shift, e - shift] for tok, s, e in source]
    pending = None
    if [list(g) for g in got] != exp:
        # returned, not raised: the caller finishes every other assertion about the case first, so that
        # the recorded sign defect (KF-C10-1) does not hide anything else
        pending = Violation("%s: %s" % (where, TOK_WHAT if not retain else "retained token boundaries changed"),
                            {"got": [list(g) for g in got], "source": source, "start": a, "retain": retain}, exp)
    return len(ids), pending


def _tok_check(case):
    import torch

    F, M = _lib()
    refs, slices, ref_lens = case["refs"], case["slices"], case["ref_lens"]
    N, R = len(refs), case["R"]
    classes = ["partial" if case["partial"] else "full", "retain" if case["retain"] else "relative",
               "ref_lens_given" if ref_lens is not None else "ref_lens_omitted"] + L.size_classes(R=R, N=N)
    if case.get("pattern"):
        classes.append("pattern_" + case["pattern"])
    refs, lib = _prepare_refs(case, refs, ref_lens, R, classes)
    S = case.get("scale") or 1
    slices = [[a * S, b * S] for a, b in slices]
    lay = case.get("lay") or {}
    refs_t = _lay_input(torch.tensor(lib, dtype=torch.long).view(N, R, 3), case, classes)
    slices_t = L.lay(torch.tensor(slices, dtype=torch.long).view(N, 2), lay.get("slices"))
    c = L.layout_class("slices", slices_t, lay.get("slices"))
    if c:
        classes.append(c)
    lens_t = _lt(ref_lens, lay.get("lens"), "lens", classes)
    if case["entry"] == "module":
        m = M.ChunkTokenSequencesBySlices(case["partial"], case["retain"])
        call = lambda a, b, c: m(a, b, c)  # noqa: E731
    else:
        call = lambda a, b, c: F.chunk_token_sequences_by_slices(a, b, c, case["partial"], case["retain"])  # noqa: E731
    pattern = case.get("pattern")
    if pattern == "reuse":
        call(refs_t.flip(0), slices_t.flip(0), _flip0(lens_t))
    outs = [call(refs_t, slices_t, lens_t)]
    if pattern == "twice":
        outs.append(call(refs_t, slices_t, lens_t))
    eff = ref_lens if ref_lens is not None else [R] * N
    nontrivial = False
    pending = None
    for k, (chunked, clens) in enumerate(outs):
        tag = "" if k == 0 else " (second call with the same tensors)"
        require(tuple(clens.shape) == (N,), "chunked_lens is not of shape (N,)" + tag, list(clens.shape), [N])
        clens = clens.tolist()
        require(chunked.ndim == 3 and chunked.shape[0] == N and chunked.shape[2] == 3 and chunked.shape[1] >= max(clens + [0]),
                "chunked is not of shape (N, R' >= max count, 3)" + tag, list(chunked.shape), [N, max(clens + [0]), 3])
        require(all(0 <= c <= R for c in clens), "chunked_lens out of range" + tag, _brief(clens), [0, R])
        for n in range(N):
            a, b = slices[n]
            got = [tuple(t) for t in chunked[n, :clens[n]].tolist()]
            counted = refs[n][:eff[n]]
            kept, pend = _check_tokens(counted, a, b, case["partial"], case["retain"], got, "row %d%s" % (n, tag))
            pending = pending or pend
            if k:
                continue
            if kept and a != 0:
                classes.append("nonzero_start_kept_token")
                nontrivial = True
            if kept and a < 0:
                classes.append("negative_start_kept_token")
            if any(s < 0 or e < 0 for _, s, e in counted):
                classes.append("missing_segment")
            if any(O.token_verdict(s, e, a, b, case["partial"]) == O.EITHER for _, s, e in counted):
                classes.append("undetermined_token")
            if kept == 0:
                classes.append("row_keeps_nothing")
            if kept and counted and counted[0][0] < 0:
                classes.append("negative_token_ids")
    if pending is not None:
        raise pending
    return Info(nontrivial, sorted(set(classes)))


@st.composite
def _tok_large_cases(draw, tier):
    c = {"small": [draw(st.integers(0, 11)), draw(st.integers(0, 11))],
            "seed": draw(st.integers(0, 10 ** 6)), "lens_kind": draw(st.sampled_from([None, "any", "near_full", "extremes"])),
            "partial": draw(st.booleans()), "retain": draw(st.booleans()), "entry": draw(st.sampled_from(["fn", "module"])),
            "lay": draw(st.one_of(st.none(), st.fixed_dictionaries({"input": st.sampled_from(M_LAYS), "lens": st.sampled_from(V_LAYS),
                                                                    "slices": st.sampled_from(M_LAYS)}))),
            "garbage": draw(st.booleans()), "scale": draw(st.sampled_from([None, None, BIG_SCALE])),
            "pattern": draw(st.sampled_from(PATTERNS))}
    c["dim"], c["size"] = L.dim_size_from(c, ["R", "N"], _groups(tier))
    return c


def _tok_large_expand(c):
    a, b = c["small"]
    if c["dim"] == "R":
        N, R = 1 + a % 3, c["size"]
    else:
        N, R = c["size"], 1 + a % 5
    frames = max(4, [R // 2, R, 3 * R, 10][b % 4])
    refs = []
    for n in range(N):
        row = [_triple(_Det(c["seed"], 3, n, r), r, frames) for r in range(R)]
        for r in range(R):
            row[r][0] = 7 * r + 3 + n % 5
        refs.append(row)
    slices = []
    for n in range(N):
        src = _Det(c["seed"], 6, n)
        slices.append(_tok_slice(src, src.choice(SLICE_KINDS), refs[n], R, frames))
    return dict(c, R=R, refs=refs, slices=slices, ref_lens=_expand_lens(c["lens_kind"], N, R, c["seed"]))


def _tok_check_any(case):
    # the large cases live in the same sub-check as the small ones (the recorded finding KF-C10-1 is keyed by sub-check name)
    return _tok_check(_tok_large_expand(case) if "dim" in case else case)


subcheck("C10", "chunk_tokens", lambda tier: gen.weighted((6, _tok_cases(tier)), (1, _tok_large_cases(tier))), 1800, 44000,
         doc="chunk_token_sequences_by_slices on generated refs (known / missing / empty / inverted segments), slices with negative "
             "and large starts, partial, retain, ref_lens given|omitted: kept = tokens contained in (partial: overlapping) the slice, "
             "in order; boundaries unchanged if retain else minus the slice start; also with garbage triples behind ref_lens, negative "
             "token ids, frame numbers beyond int32, non-contiguous / offset / expanded layouts of refs, slices, ref_lens, repeated calls; "
             "one case in seven has R (tokens) or N at 15..17, ..., 1023..1025, 2049 (thorough: also 4095..4097) with triples, slices and "
             "ref_lens expanded from (seed, row, token) by a pure integer hash",
         required_classes=["nonzero_start_kept_token", "partial", "retain", "ref_lens_omitted", "missing_segment",
                           "garbage_beyond_len", "negative_token_ids", "frames_beyond_int32", "input_transposed", "input_inner",
                           "input_offset", "input_last_strided", "input_expanded", "slices_transposed", "slices_last_strided",
                           "lens_strided", "pattern_twice", "pattern_reuse", "R_at_16", "R_at_1024", "R_at_2049", "N_at_1024",
                           "N_at_2049"])(_tok_check_any)


@matcher("c10_token_boundaries_added")
def _m_token_sign(case, v):
    """Known finding: boundaries of kept tokens come out as source + slice start (documented: relative to the
    slice start, i.e. source - start).  Narrow: the selection of tokens was right (that is checked first), retain
    is off, the slice start is non-zero, and every observed boundary is exactly source + start."""
    if not v.get("what", "").endswith(TOK_WHAT) or v.get("kind") != "oracle":
        return False
    o = v.get("observed") or {}
    a = o.get("start")
    if o.get("retain") is not False or not isinstance(a, int) or a == 0:
        return False
    got, source = o.get("got"), o.get("source")
    if not got or len(got) != len(source):
        return False
    return all(g[0] == s[0] and g[1] == s[1] + a and g[2] == s[2] + a for g, s in zip(got, source))


# ------------------------------------------------------------------ the chunking command, end to end

SAVE_LAYS = ["contiguous", "contiguous", "offset", "inner", "strided", "transposed", "last_strided"]


@st.composite
def _dir_cases(draw, tier):
    big = tier == "thorough"
    nutt = draw(st.integers(1, 3 if not big else 5))
    policy = draw(st.sampled_from(["fixed", "ali", "ref"]))
    has_ali = policy == "ali" or draw(st.booleans())
    has_ref = policy == "ref" or draw(st.booleans())
    fdim = draw(st.integers(1, 3))
    utts = []
    for u in range(nutt):
        T = draw(st.one_of(st.integers(1, 8 if not big else 14), st.integers(4, 10 if not big else 16)))
        ali = None
        if has_ali:
            seq = []
            while len(seq) < T:
                seq.extend([draw(st.integers(0, 2))] * draw(st.integers(1, 3)))
            ali = seq[:T]
        ref = None
        if has_ref:
            R = draw(st.integers(0, 4))
            ref = []
            for r in range(R):
                if draw(st.sampled_from([True, True, True, False])):
                    s = draw(st.integers(0, T))
                    e = draw(st.integers(s, T))
                else:
                    s = e = -1
                ref.append([11 * r + 5, s, e])
            if policy == "ref":
                # the command passes no lengths: keep the default frame count well defined by putting
                # the known segment with the latest end last
                known = [t for t in ref if t[1] >= 0]
                if known:
                    last = max(known, key=lambda t: t[2])
                    ref.remove(last)
                    ref.append(last)
        utts.append({"T": T, "ali": ali, "ref": ref})
    pad_mode = draw(st.sampled_from([None, None, "constant", "replicate", "reflect"]))
    # references stored without segment boundaries (1-D): well-formed, but no token can be assigned to a chunk
    ref_1d = has_ref and policy != "ref" and draw(st.sampled_from([False, False, True]))
    c = {"utts": utts, "fdim": fdim, "policy": policy, "window": draw(st.sampled_from(WINDOWS)),
         "lobe": draw(st.sampled_from([0, 0, 1, 1, 1, 2, 2, 3])), "pad_mode": pad_mode, "pad_constant": draw(st.sampled_from([0, -1, 3])),
         "partial": draw(st.sampled_from([False, False, True])), "retain": draw(st.sampled_from([False, False, False, True])),
         "fmt": draw(st.sampled_from(["idx", "default"])), "prefix": draw(st.sampled_from(["", "", "p-"])), "ref_1d": bool(ref_1d)}
    if not draw(st.sampled_from([True, False, False])):
        # what must not matter: how the stored tensors lie in memory (a saved view keeps its strides and offset), the
        # feature dtype, non-finite feature values, an output directory that already holds (part of) an earlier run
        c["save_lay"] = {"feat": draw(st.sampled_from(SAVE_LAYS)), "ali": draw(st.sampled_from(["contiguous", "offset", "strided"])),
                         "ref": draw(st.sampled_from(SAVE_LAYS))}
        c["feat_dtype"] = draw(st.sampled_from(["float32", "float32", "float64"]))
        c["nonfinite"] = draw(st.sampled_from([None, None, "inf", "-inf", "both"]))
        c["rerun"] = draw(st.sampled_from([None, None, "same", "partial"]))
    return c


def _utt_windows(case, utt):
    valid = case["pad_mode"] is None
    if case["policy"] == "fixed":
        return O.fixed_windows(utt["T"], case["window"], valid, case["lobe"])
    if case["policy"] == "ali":
        return O.ali_windows(utt["ali"], case["window"], valid, case["lobe"])
    ol, det = _default_other_len(utt["ref"])
    if not det:
        known = [t for t in utt["ref"] if t[1] >= 0]
        if known:
            raise Reject()  # cannot happen by construction
        return []
    ws = O.ref_windows(utt["ref"], ol, case["window"], valid, case["lobe"])
    if any(v == O.EITHER for v, _, _ in ws):
        raise Reject()  # number of chunks not determined by the documents
    return [(s, e) for _, s, e in ws]


def _make_feat(case, u, T):
    x = P.make_x(1, T, [case["fdim"]], base=1 + 100 * u, dtype=case.get("feat_dtype", "float32"))[0]
    kind = case.get("nonfinite")
    if kind and T:
        # isolated non-finite frames (log-energies of silence): frame u % T (and the last one for "both")
        x[u % T, 0] = float("-inf") if kind == "-inf" else float("inf")
        if kind == "both":
            x[T - 1, -1] = float("-inf")
    return x


def _dir_check(case):
    import torch
    from pydrobert.torch import command_line, data

    mode = case["pad_mode"] or "constant"
    value = case["pad_constant"]
    prefix = case["prefix"]
    expected = {}  # chunk name -> (utterance id, utterance, start, end)
    illegal = False
    crossing = False
    feats = {}
    windows = [_utt_windows(case, utt) for utt in case["utts"]]
    # the default name pattern {utt_id}.{start:05d}.{end:05d} is only usable when no utterance has two equal windows
    fmt_all = "default" if case["fmt"] == "default" and all(len(set(ws)) == len(ws) for ws in windows) else "idx"
    for u, utt in enumerate(case["utts"]):
        uid = "utt%d" % u
        T = utt["T"]
        feats[uid] = _make_feat(case, u, T)
        for idx, (s, e) in enumerate(windows[u]):
            l, r = P.slice_pads(s, e, T)
            if not P.pad_legal(mode, T, l, r):
                illegal = True
            if l or r:
                crossing = True
            name = ("%s.%05d.%05d" % (uid, s, e)) if fmt_all == "default" else "%s.%d" % (uid, idx)
            expected[name] = (uid, utt, s, e)
    has_ali = case["utts"][0]["ali"] is not None
    has_ref = case["utts"][0]["ref"] is not None
    save_lay = case.get("save_lay") or {}
    feat_dtype = getattr(torch, case.get("feat_dtype", "float32"))
    tmp = tempfile.mkdtemp(prefix="vf_")
    try:
        in_dir, out_dir = os.path.join(tmp, "in"), os.path.join(tmp, "out")
        os.makedirs(os.path.join(in_dir, "feat"))
        if has_ali:
            os.makedirs(os.path.join(in_dir, "ali"))
        if has_ref:
            os.makedirs(os.path.join(in_dir, "ref"))
        classes = ["policy_" + case["policy"], "pad_" + str(case["pad_mode"]), "fmt_" + fmt_all] + \
                  ["window_" + case["window"], "lobe_%d" % min(case["lobe"], 3)] + L.size_classes(utts=len(case["utts"]),
                                                                                                  T=max(u["T"] for u in case["utts"]))
        for u, utt in enumerate(case["utts"]):
            base = "%sutt%d.pt" % (prefix, u)
            t = L.lay(torch.from_numpy(feats["utt%d" % u].copy()), save_lay.get("feat"))
            if not t.is_contiguous() or t.storage_offset():
                classes.append("saved_view")
            torch.save(t, os.path.join(in_dir, "feat", base))
            if has_ali:
                torch.save(L.lay(torch.tensor(utt["ali"], dtype=torch.long), save_lay.get("ali")), os.path.join(in_dir, "ali", base))
            if has_ref and case.get("ref_1d"):
                torch.save(torch.tensor([t[0] for t in utt["ref"]], dtype=torch.long), os.path.join(in_dir, "ref", base))
            elif has_ref:
                torch.save(L.lay(torch.tensor(utt["ref"], dtype=torch.long).view(-1, 3), save_lay.get("ref")),
                           os.path.join(in_dir, "ref", base))
        args = [in_dir, out_dir, "--policy", case["policy"], "--window-type", case["window"], "--lobe-size", str(case["lobe"]),
                "--pad-constant", str(float(value)), "--num-workers", "0"]  # serial: no worker processes
        if prefix:
            args += ["--file-prefix", prefix]
        if case["pad_mode"] is not None:
            args += ["--pad-mode", case["pad_mode"]]
        if case["partial"]:
            args.append("--partial-tokens")
        if case["retain"]:
            args.append("--retain-token-boundaries")
        if fmt_all == "idx":
            args.append("--format-utt={utt_id}.{idx}")
        if case.get("feat_dtype", "float32") != "float32":
            classes.append("feat_" + case["feat_dtype"])
        if case.get("nonfinite"):
            classes.append("nonfinite_features")
        if case.get("lobe_override") is not None:
            classes.append("utterance_with_more_than_2048_windows")
        with warnings.catch_warnings():
            warnings.simplefilter("ignore")
            if illegal:
                with expect_raises(NotImplementedError, what="reflect padding with a window needing a pad >= the utterance length"):
                    command_line.chunk_torch_spect_data_dir(args)
                return Info(False, classes + ["documented_exception"])
            rc = command_line.chunk_torch_spect_data_dir(args)
            require(not rc, "the command returned a non-zero status", rc, 0)
            if case.get("rerun"):
                # the command is run again over its own output (complete, or with every second file removed as
                # after an interrupted run): it must (re)write every chunk
                if case["rerun"] == "partial":
                    for sub in ("feat", "ali", "ref"):
                        d = os.path.join(out_dir, sub)
                        if os.path.isdir(d):
                            for i, fn in enumerate(sorted(os.listdir(d))):
                                if (i + len(sub)) % 2:
                                    os.remove(os.path.join(d, fn))
                rc = command_line.chunk_torch_spect_data_dir(args)
                require(not rc, "the command returned a non-zero status when run again over its own output", rc, 0)
                classes.append("rerun_" + case["rerun"])
        names = sorted(expected)
        files = sorted(os.listdir(os.path.join(out_dir, "feat")))
        require(files == sorted(prefix + n + ".pt" for n in names), "chunk files written differ from the documented windows",
                _brief(files), _brief(sorted(prefix + n + ".pt" for n in names)))
        for sub, present in (("ali", has_ali), ("ref", has_ref)):
            d = os.path.join(out_dir, sub)
            got_files = sorted(os.listdir(d)) if os.path.isdir(d) else []
            require(got_files == (files if present else []), "%s files differ from the feature chunks" % sub, _brief(got_files),
                    _brief(files if present else []))
        kept_any = False
        nonzero_kept = False
        pending = None
        for name in names:
            uid, utt, s, e = expected[name]
            base = prefix + name + ".pt"
            got = torch.load(os.path.join(out_dir, "feat", base))
            require(got.dtype == feat_dtype, "chunk %s: feature dtype differs from the source's" % name, str(got.dtype), str(feat_dtype))
            got = got.numpy()
            exp = P.chunk_row(feats[uid], s, e, mode, value)
            require(got.shape == exp.shape and bool(np.array_equal(got, exp)),
                    "chunk %s: features differ from the source restricted to [%d, %d)" % (name, s, e), got, exp)
            if has_ali:
                got = torch.load(os.path.join(out_dir, "ali", base))
                require(got.dtype == torch.long, "chunk %s: alignment is not a long tensor" % name, str(got.dtype), "torch.int64")
                exp = P.chunk_row(np.asarray(utt["ali"], dtype=np.int64), s, e, mode, value)
                require(got.numpy().shape == exp.shape and bool(np.array_equal(got.numpy(), exp)),
                        "chunk %s: alignment differs from the source restricted to [%d, %d)" % (name, s, e), got, exp)
            if has_ref and case.get("ref_1d"):
                # tokens without boundaries cannot be restricted to a window: documented as "always empty"
                got = torch.load(os.path.join(out_dir, "ref", base))
                require(got.ndim == 1 and got.dtype == torch.long and got.numel() == 0,
                        "chunk %s: reference of a source without segment boundaries is not an empty 1-D long tensor" % name,
                        [str(got.dtype), list(got.shape)], "int64 (0,)")
            elif has_ref:
                got = torch.load(os.path.join(out_dir, "ref", base))
                require(got.ndim == 2 and got.shape[1] == 3 and got.dtype == torch.long, "chunk %s: reference is not a long (R, 3) tensor" % name,
                        [str(got.dtype), list(got.shape)], "int64 (R, 3)")
                kept, pend = _check_tokens(utt["ref"], s, e, case["partial"], case["retain"], [tuple(t) for t in got.tolist()],
                                           "chunk %s" % name)
                pending = pending or pend
                kept_any = kept_any or kept > 0
                nonzero_kept = nonzero_kept or (kept > 0 and s != 0)
        if pending is not None:
            raise pending  # after every chunk's features, alignments and token selection have been compared
        if names and not case["partial"] and not case["retain"]:
            ds = data.SpectDataSet(out_dir, file_prefix=prefix)
            try:
                data.validate_spect_data_set(ds)
            except ValueError as err:
                raise Violation("the chunked directory does not pass validate_spect_data_set", str(err)[:300], "well-formed")
            require(len(ds) == len(names), "data set over the chunked directory has the wrong size", len(ds), len(names))
            classes.append("validated")
        if crossing:
            classes.append("padded_chunk")
        if case.get("ref_1d"):
            classes.append("refs_without_boundaries")
        if kept_any:
            classes.append("ref_chunk_with_token")
        if nonzero_kept:
            classes.append("nonzero_start_kept_token")
        if not names:
            classes.append("no_chunks")
        lab = L.thresh_label(len(names))
        if lab:
            classes.append("chunks_at_" + lab)
        return Info(bool(names) and (case["lobe"] > 0 and crossing or nonzero_kept or case["policy"] != "fixed"), sorted(set(classes)))
    finally:
        shutil.rmtree(tmp, ignore_errors=True)


@st.composite
def _dir_large_cases(draw, tier):
    big = tier == "thorough"
    policy = draw(st.sampled_from(["fixed", "ali", "ref"]))
    c = {"small": [draw(st.integers(0, 11)), draw(st.integers(0, 11))], "seed": draw(st.integers(0, 10 ** 6)),
            "policy": policy, "has_ali": policy == "ali" or draw(st.booleans()), "has_ref": policy == "ref" or draw(st.booleans()),
            "fdim": draw(st.integers(1, 3)), "window": draw(st.sampled_from(WINDOWS)),
            "pad_mode": draw(st.sampled_from([None, None, "constant", "replicate", "reflect"])), "pad_constant": draw(st.sampled_from([0, -1, 3])),
            "partial": draw(st.sampled_from([False, False, True])), "retain": draw(st.sampled_from([False, False, False, True])),
            "fmt": draw(st.sampled_from(["idx", "default"])), "prefix": draw(st.sampled_from(["", "p-"])),
            "save_lay": draw(st.one_of(st.none(), st.fixed_dictionaries({"feat": st.sampled_from(SAVE_LAYS), "ali": st.sampled_from(["contiguous", "offset", "strided"]),
                                                                         "ref": st.sampled_from(SAVE_LAYS)})))}
    if draw(st.integers(0, 3)) == 0:
        # one utterance cut into more than 2048 one-frame windows (fixed policy, lobe 0)
        c.update({"policy": "fixed", "dim": "T", "size": draw(st.sampled_from([2049, 2060, 2500] if not big else [2049, 2060, 4100])),
                  "lobe_override": 0, "save_lay": None})
        return c
    # two cases in three vary the number of utterances, one the length of one utterance
    dim, _ = L.dim_size_from(c, ["utts", "utts", "T"], [16])
    if dim == "utts":
        c["dim"], c["size"] = L.dim_size_from(c, ["utts"], (16, 32, 64, 128) if not big else (16, 32, 64, 128, 256))
    else:
        c["dim"], c["size"] = L.dim_size_from(c, ["T"], (16, 128, 1024, 1024, 2049) if not big else L.GROUPS)
    return c


def _dir_large_expand(c):
    a, b = c["small"]
    seed = c["seed"]
    if c["dim"] == "utts":
        nutt, lobe = c["size"], [0, 1, 1, 2][b % 4]
        Ts = [L.pick(1, 7, seed, 1, u) for u in range(nutt)]
    else:
        nutt = 1 + a % 2
        Ts = [c["size"]] + [L.pick(1, 9, seed, 1, u) for u in range(1, nutt)]
        # a lobe that keeps the number of chunks of the long utterance below about 140
        lobe = [c["size"] // 8, c["size"] // 16 + 1, 15, 16, 17, 31, 32, 33, 63, 64, 65, c["size"] // 3][b]
        if c["policy"] == "fixed":
            lobe = max(lobe, c["size"] // 128)
        elif c["policy"] == "ref":
            lobe = min(lobe, 33)
    utts = []
    for u, T in enumerate(Ts):
        ali = None
        if c["has_ali"]:
            if T > 300:
                # long runs so that the number of segments stays moderate
                src = _Det(seed, 2, u)
                ali, lab = [], src(0, 2)
                while len(ali) < T:
                    ali.extend([lab] * src(max(T // 60, 1), max(T // 20, 2)))
                    lab = (lab + src(1, 2)) % 3
                ali = ali[:T]
            else:
                ali = _expand_ali_row("short", T, seed, u)
        ref = None
        if c["has_ref"]:
            R = L.pick(0, 4, seed, 3, u) if T <= 300 else L.pick(15, 33, seed, 3, u)
            ref = []
            for r in range(R):
                src = _Det(seed, 4, u, r)
                if src(0, 3):
                    s = src(0, T)
                    e = src(s, min(T, s + max(T // 10, 3)))
                else:
                    s = e = -1
                ref.append([11 * r + 5, s, e])
            if c["policy"] == "ref":
                known = [t for t in ref if t[1] >= 0]
                if known:
                    last = max(known, key=lambda t: t[2])
                    ref.remove(last)
                    ref.append(last)
        utts.append({"T": T, "ali": ali, "ref": ref})
    if c.get("lobe_override") is not None:
        lobe = c["lobe_override"]
    return dict(c, utts=utts, lobe=lobe)


def _dir_check_any(case):
    # the large cases live in the same sub-check as the small ones (the recorded finding KF-C10-1 is keyed by sub-check name)
    return _dir_check(_dir_large_expand(case) if "dim" in case else case)


subcheck("C10", "chunk_dir_cli", lambda tier: gen.weighted((10, _dir_cases(tier)), (1, _dir_large_cases(tier))), 264, 4400,
         doc="a generated well-formed data directory (1..3|5 utterances, feat + optional ali / ref) is chunked by the "
             "chunk-torch-spect-data-dir command under generated flags (policy, window, lobe, pad mode, partial, retain, format): "
             "exactly the oracle's chunk names are written, every chunk's feat / ali / ref equals the oracle's restriction of the "
             "source, and (contained tokens, relative boundaries) the output passes validate_spect_data_set; also with source tensors "
             "saved as non-contiguous / offset views, float64 features, isolated +-inf feature values, and the command run a second time "
             "over its own complete or half-deleted output; one case in eleven has 15..17, 31..33, 63..65, 127..129 (thorough: also "
             "255..257) utterances, or one utterance of 15..17, 127..129, 1023..1025, 2049 frames (thorough: every threshold) with a lobe "
             "giving at most about 140 chunks, expanded from (seed, utterance) by a pure integer hash; one large case in four cuts one "
             "utterance of 2049..2500 (4100) frames into one-frame windows (more than 2048 chunks of one utterance)",
         required_classes=["policy_fixed", "policy_ali", "policy_ref", "validated", "padded_chunk", "ref_chunk_with_token",
                           "saved_view", "feat_float64", "nonfinite_features", "rerun_same", "rerun_partial",
                           "utterance_with_more_than_2048_windows"],
         timeout_s=3000)(_dir_check_any)
