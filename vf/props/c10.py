"""C10 Slicing policies yield the documented windows; token chunks are slice-relative.

Observed at pydrobert.torch.functional.slice_spect_data / chunk_token_sequences_by_slices (and
the module forms) and at the chunk-torch-spect-data-dir command.  The oracles
(vf/oracles/c10_slices.py, vf/oracles/c09_pad.py) are loop transcriptions of the documented
policy text, one sequence at a time.
"""
from __future__ import annotations

import os
import shutil
import tempfile
import warnings

import numpy as np
from hypothesis import strategies as st

from ..core import Info, Reject, Violation, expect_raises, matcher, require, subcheck
from ..oracles import c09_pad as P
from ..oracles import c10_slices as O

WINDOWS = ["symmetric", "causal", "future"]


def _lib():
    import pydrobert.torch.functional as F
    import pydrobert.torch.modules as M

    return F, M


def _call_slicer(case, inp, in_lens, other_lens):
    F, M = _lib()
    if case.get("entry") == "module":
        return M.SliceSpectData(case["policy"], case["window"], case["valid"], case["lobe"])(inp, in_lens, other_lens)
    return F.slice_spect_data(inp, in_lens, other_lens, case["policy"], case["window"], case["valid"], case["lobe"])


def _windows_of(slices, sources):
    require(slices.ndim == 2 and slices.shape[1] == 2 and sources.ndim == 1 and sources.shape[0] == slices.shape[0],
            "slices / sources do not have shapes (M, 2) / (M,)", [list(slices.shape), list(sources.shape)], "(M, 2), (M,)")
    return [(int(src), int(s), int(e)) for src, (s, e) in zip(sources.tolist(), slices.tolist())]


def _cfg_classes(case):
    return ["window_" + case["window"], "valid_only" if case["valid"] else "not_valid_only", "lobe_%d" % min(case["lobe"], 3)]


def _lt(v):
    import torch

    return None if v is None else torch.tensor(v, dtype=torch.long)


# ------------------------------------------------------------------ policy "fixed"


def _fixed_check(case):
    import torch

    N, T, lens = case["N"], case["T"], case["lens"]
    inp = torch.zeros((N, T) + tuple(case.get("trail", [])))
    slices, sources = _call_slicer(case, inp, _lt(lens), None)
    got = _windows_of(slices, sources)
    eff = lens if lens is not None else [T] * N
    exp = []
    crossing = False
    for n in range(N):
        for s, e in O.fixed_windows(eff[n], case["window"], case["valid"], case["lobe"]):
            exp.append((n, s, e))
            if s < 0 or e > eff[n]:
                crossing = True
    require(got == exp, "fixed policy: windows differ from the documented ones", got, exp)
    if case["valid"]:
        for n, s, e in got:
            require(0 <= s and e <= eff[n], "valid-only window leaves its sequence", (n, s, e), eff[n])
    classes = _cfg_classes(case) + ["lens_given" if lens is not None else "lens_omitted"]
    if crossing:
        classes.append("window_crosses_end")
    if any(v == 0 for v in eff):
        classes.append("len0")
    if any(v == 1 for v in eff):
        classes.append("len1")
    if lens is None and not case["valid"] and case["window"] == "symmetric" and T % (case["lobe"] + 1) == (case["lobe"] + 1) // 2 \
            and case["lobe"] % 2 == 1:
        classes.append("mid_at_T_when_lens_omitted")
    return Info(case["lobe"] > 0 and crossing, classes)


def _fixed_enum(tier):
    maxT, maxL = (12, 4) if tier == "quick" else (24, 6)
    out = []
    for T in range(0, maxT + 1):
        for lobe in range(0, maxL + 1):
            for window in WINDOWS:
                for valid in (True, False):
                    base = {"policy": "fixed", "T": T, "window": window, "valid": valid, "lobe": lobe, "entry": "fn"}
                    out.append(dict(base, N=2, lens=None))
                    # every length 0..T in one batch
                    out.append(dict(base, N=T + 1, lens=list(range(T, -1, -1)) if (T + lobe) % 2 else list(range(T + 1))))
    return out


subcheck("C10", "slice_fixed_enum", _fixed_enum, 0, 0, exhaustive=True,
         doc="policy fixed: every (T<=12|24, lobe<=4|6, window, valid) with in_lens omitted and with all lengths 0..T in one batch; "
             "oracle = documented stride / size / first offset / middle-index rule, per sequence",
         required_classes=["window_crosses_end", "lens_omitted", "len0", "len1", "mid_at_T_when_lens_omitted"])(_fixed_check)


@st.composite
def _fixed_cases(draw, tier):
    big = tier == "thorough"
    N = draw(st.integers(1, 3 if not big else 5))
    T = draw(st.integers(0, 10 if not big else 30))
    lens = draw(st.one_of(st.none(), st.lists(st.integers(0, T), min_size=N, max_size=N)))
    return {"policy": "fixed", "N": N, "T": T, "lens": lens, "trail": draw(st.sampled_from([[], [2], [1, 2]])),
            "window": draw(st.sampled_from(WINDOWS)), "valid": draw(st.booleans()),
            "lobe": draw(st.integers(0, 4 if not big else 8)), "entry": draw(st.sampled_from(["fn", "module"]))}


subcheck("C10", "slice_fixed", lambda tier: _fixed_cases(tier), 600, 20000,
         doc="policy fixed on generated (N, T incl. 0, trailing dims, in_lens given|omitted, window, valid, lobe 0..4|8)",
         required_classes=["window_crosses_end", "lens_omitted", "lens_given"])(_fixed_check)


# ------------------------------------------------------------------ policy "ali"


def _ali_check(case):
    import torch

    ali, lens = case["ali"], case["lens"]
    N, T = len(ali), case["T"]
    inp = torch.tensor(ali, dtype=torch.long).view(N, T)
    slices, sources = _call_slicer(case, inp, _lt(lens), None)
    got = _windows_of(slices, sources)
    eff = lens if lens is not None else [T] * N
    exp = []
    nruns = []
    clipped = False
    for n in range(N):
        seq = ali[n][:eff[n]]
        segs = O.runs(seq)
        nruns.append(len(segs))
        ws = O.ali_windows(seq, case["window"], case["valid"], case["lobe"])
        exp.extend((n, s, e) for s, e in ws)
        if case["lobe"] and 0 < len(segs) <= case["lobe"]:
            clipped = True
    require(got == exp, "ali policy: windows differ from the documented ones", got, exp)
    if case["valid"]:
        for n, s, e in got:
            require(0 <= s and e <= eff[n], "valid-only window leaves its sequence", (n, s, e), eff[n])
    classes = _cfg_classes(case) + ["lens_given" if lens is not None else "lens_omitted"]
    if any(r >= 3 for r in nruns):
        classes.append("runs_ge_3")
    if any(v == T for v in eff) and T > 0:
        classes.append("full_length_sequence")
    if any(v == 0 for v in eff):
        classes.append("len0")
    if clipped:
        classes.append("lobe_ge_runs")
    if case["lobe"] and case["valid"] and sum(nruns) < case["lobe"] * (2 if case["window"] == "symmetric" else 1):
        classes.append("lobe_offset_gt_total_runs")
    return Info(any(r >= 3 for r in nruns) and case["lobe"] > 0, classes)


def _ali_enum(tier):
    maxT, maxL = (5, 3) if tier == "quick" else (7, 4)
    out = []
    k = 0
    for T in range(1, maxT + 1):
        rows = []
        for bits in range(2 ** T):
            seq = [(bits >> i) & 1 for i in range(T)]
            for L in range(0, T + 1):
                rows.append((seq, L))
        for lobe in range(0, maxL + 1):
            for window in WINDOWS:
                for valid in (True, False):
                    k += 1
                    # rotate so that batches pair different rows under different configurations
                    rot = rows[k % len(rows):] + rows[:k % len(rows)]
                    for i in range(0, len(rot), 6):
                        chunk = rot[i:i + 6]
                        out.append({"policy": "ali", "T": T, "ali": [r[0] for r in chunk], "lens": [r[1] for r in chunk],
                                    "window": window, "valid": valid, "lobe": lobe, "entry": "fn"})
    return out


subcheck("C10", "slice_ali_enum", _ali_enum, 0, 0, exhaustive=True,
         doc="policy ali: every binary alignment of length T<=5|7 x every in_len 0..T (batches of 6 rows) x lobe<=3|4 x window x valid; "
             "oracle = maximal runs, m-th window from run m-lobe to m+lobe, dropped (valid-only) or clipped to existing runs",
         required_classes=["runs_ge_3", "full_length_sequence", "len0", "lobe_ge_runs"])(_ali_check)


@st.composite
def _ali_cases(draw, tier):
    big = tier == "thorough"
    N = draw(st.integers(1, 3 if not big else 5))
    T = draw(st.integers(1, 10 if not big else 24))
    K = draw(st.integers(1, 3))
    ali = []
    for _ in range(N):
        # run-length construction so that long runs and many runs both occur
        seq = []
        while len(seq) < T:
            lab = draw(st.integers(0, K - 1))
            seq.extend([lab] * draw(st.integers(1, 4)))
        ali.append(seq[:T])
    lens = draw(st.one_of(st.none(), st.lists(st.one_of(st.integers(0, T), st.just(T)), min_size=N, max_size=N)))
    return {"policy": "ali", "T": T, "ali": ali, "lens": lens, "window": draw(st.sampled_from(WINDOWS)),
            "valid": draw(st.booleans()), "lobe": draw(st.integers(0, 4)), "entry": draw(st.sampled_from(["fn", "module"]))}


subcheck("C10", "slice_ali", lambda tier: _ali_cases(tier), 800, 20000,
         doc="policy ali on generated alignments (alphabet 1..3, any run structure, N<=3|5, T<=10|24, in_lens given|omitted, lobe 0..4)",
         required_classes=["runs_ge_3", "full_length_sequence", "lens_omitted", "lobe_offset_gt_total_runs"])(_ali_check)


# ------------------------------------------------------------------ policy "ref"


@st.composite
def _triples(draw, R, frames, ordered=False):
    out = []
    for r in range(R):
        kind = draw(st.sampled_from(["known", "known", "known", "empty", "missing", "half_missing", "inverted", "beyond"]))
        if kind == "missing":
            s, e = -1, -1
        elif kind == "half_missing":
            s, e = draw(st.sampled_from([(-1, draw(st.integers(0, frames))), (draw(st.integers(0, frames)), -1)]))
        elif kind == "empty":
            s = e = draw(st.integers(0, frames))
        elif kind == "inverted":
            s = draw(st.integers(1, frames + 1))
            e = draw(st.integers(0, s - 1))
        elif kind == "beyond":
            s = draw(st.integers(0, frames + 2))
            e = draw(st.integers(s, frames + 3))
        else:
            s = draw(st.integers(0, frames))
            e = draw(st.integers(s, frames))
        out.append([100 + r, s, e])
    return out


@st.composite
def _ref_cases(draw, tier):
    big = tier == "thorough"
    N = draw(st.integers(1, 3 if not big else 4))
    R = draw(st.integers(1, 5 if not big else 8))
    frames = draw(st.integers(0, 10))
    refs = [draw(_triples(R, frames)) for _ in range(N)]
    lens = draw(st.one_of(st.none(), st.lists(st.integers(0, R), min_size=N, max_size=N)))
    other = draw(st.one_of(st.none(), st.lists(st.integers(max(frames - 2, 0), frames + 1), min_size=N, max_size=N)))
    if other is None and draw(st.sampled_from([True, True, False])):
        # make the default length well defined: the counted known segment with the latest end goes last
        for n in range(N):
            cnt = R if lens is None else lens[n]
            known = [t for t in refs[n][:cnt] if t[1] >= 0 and t[2] >= 0]
            if known:
                last = max(known, key=lambda t: t[2])
                i = refs[n].index(last)
                refs[n][i], refs[n][cnt - 1] = refs[n][cnt - 1], refs[n][i]
    return {"policy": "ref", "R": R, "refs": refs, "lens": lens, "other_lens": other, "window": draw(st.sampled_from(WINDOWS)),
            "valid": draw(st.booleans()), "lobe": draw(st.integers(0, 4)), "entry": draw(st.sampled_from(["fn", "module"]))}


def _default_other_len(triples):
    """other_lens omitted: 'the final segment's end time' (comment in the source; DESIGN.md: the end of the
    last counted segment).  Returns (value, determined): determined iff the last counted triple is known and
    no counted known segment ends later, i.e. every reasonable reading of 'the length implied by the
    segments' gives the same number."""
    if not triples:
        return 0, True
    known = [e for _, s, e in triples if s >= 0 and e >= 0]
    _, s, e = triples[-1]
    if s >= 0 and e >= 0 and e == max(known):
        return e, True
    return None, False


@subcheck("C10", "slice_ref", lambda tier: _ref_cases(tier), 1200, 30000,
          doc="policy ref on generated (N, R, 3) segment lists incl. missing (-1), half-missing, empty, inverted, overlapping, unsorted, "
              "beyond-the-length segments; in_lens / other_lens given|omitted; oracle = each known segment widened by the lobe and kept "
              "under the documented conditions",
          required_classes=["missing_segment", "other_lens_omitted", "other_lens_given", "lens_omitted", "empty_segment",
                            "dropped_by_length"])
def _ref_check(case):
    import torch

    refs, lens, other = case["refs"], case["lens"], case["other_lens"]
    N, R = len(refs), case["R"]
    inp = torch.tensor(refs, dtype=torch.long).view(N, R, 3)
    slices, sources = _call_slicer(case, inp, _lt(lens), _lt(other))
    got = _windows_of(slices, sources)
    eff = lens if lens is not None else [R] * N
    classes = _cfg_classes(case) + ["lens_given" if lens is not None else "lens_omitted",
                                    "other_lens_given" if other is not None else "other_lens_omitted"]
    items, bound = [], []
    undetermined = False
    for n in range(N):
        counted = refs[n][:eff[n]]
        if other is not None:
            ol = other[n]
        else:
            ol, det = _default_other_len(counted)
            if not det:
                undetermined = True
        bound.append(ol)
        with_len = O.ref_windows(counted, ol, case["window"], case["valid"], case["lobe"])
        if len(with_len) < len(O.ref_windows(counted, None, case["window"], case["valid"], case["lobe"])):
            classes.append("dropped_by_length")
        items.extend((v, (n, s, e)) for v, s, e in with_len)
        if any((s < 0 or e < 0) for _, s, e in counted):
            classes.append("missing_segment")
        if any(s == e and s >= 0 for _, s, e in counted):
            classes.append("empty_segment")
    if undetermined:
        # the documents do not define the default length here: only the part that every reading
        # shares is asserted (each returned window is one of the windows without a length limit, in order)
        loose = [(O.EITHER, x) for v, x in items]
        require(O.match_optional(loose, got), "ref policy (other_lens omitted): a returned window is not a documented window",
                got, [x for _, x in loose])
        return Info(False, sorted(set(classes + ["default_length_undetermined"])))
    require(O.match_optional(items, got), "ref policy: windows differ from the documented ones", got,
            [(v,) + x for v, x in items])
    if case["valid"]:
        for n, s, e in got:
            require(0 <= s and e <= bound[n], "valid-only window leaves its sequence", (n, s, e), bound[n])
    if any(v == O.EITHER for v, _ in items):
        classes.append("start_at_length_undetermined")
    nontrivial = "missing_segment" in classes and len(got) > 0
    return Info(nontrivial, sorted(set(classes)))


# ------------------------------------------------------------------ token chunking

TOK_WHAT = "token boundaries are not relative to the slice start"


@st.composite
def _tok_cases(draw, tier):
    big = tier == "thorough"
    N = draw(st.integers(1, 3 if not big else 5))
    R = draw(st.integers(1, 5 if not big else 8))
    frames = draw(st.integers(0, 10))
    refs = [draw(_triples(R, frames)) for _ in range(N)]
    for n in range(N):  # distinct, non-contiguous token ids so that a kept token is identified by its id
        for r in range(R):
            refs[n][r][0] = 7 * r + 3 + n
    slices = []
    for n in range(N):
        kind = draw(st.sampled_from(["any", "any", "zero_start", "cover", "cover", "empty", "on_boundary", "on_boundary", "wide"]))
        if kind == "zero_start":
            a, b = 0, draw(st.integers(0, frames + 3))
        elif kind == "cover":
            a, b = draw(st.integers(-3, 0)), draw(st.integers(frames, frames + 3))
        elif kind == "empty":
            a = b = draw(st.integers(-2, frames + 2))
        elif kind == "wide":
            a = draw(st.integers(-3, max(frames // 2, 0)))
            b = draw(st.integers(a, frames + 3))
        elif kind == "on_boundary":
            r = draw(st.integers(0, R - 1))
            a = max(refs[n][r][1], 0)
            b = max(refs[n][r][2], a) + draw(st.integers(0, 2))
        else:
            a = draw(st.integers(-3, frames + 3))
            b = draw(st.integers(-3, frames + 3))
        slices.append([a, b])
    return {"R": R, "refs": refs, "slices": slices,
            "ref_lens": draw(st.one_of(st.none(), st.lists(st.integers(0, R), min_size=N, max_size=N))),
            "partial": draw(st.booleans()), "retain": draw(st.booleans()), "entry": draw(st.sampled_from(["fn", "module"]))}


def _check_tokens(triples, a, b, partial, retain, got, where):
    """got: observed (tok, s, e) of one chunk.  Selection first (by token id), then the boundaries."""
    items = [(O.token_verdict(s, e, a, b, partial), tok) for tok, s, e in triples]
    ids = [g[0] for g in got]
    require(O.match_optional(items, ids), "%s: kept tokens are not exactly the tokens whose segments are %s the slice, in order"
            % (where, "overlapping" if partial else "contained in"),
            {"kept": ids, "slice": [a, b]}, [[v, tok] + [s, e] for (v, tok), (_, s, e) in zip(items, triples)])
    src = {tok: (s, e) for tok, s, e in triples}
    source = [[tok] + list(src[tok]) for tok in ids]
    shift = 0 if retain else a
    exp = [[tok, s - shift, e - shift] for tok, s, e in source]
    pending = None
    if [list(g) for g in got] != exp:
        # returned, not raised: the caller finishes every other assertion about the case first, so that
        # the recorded sign defect (KF-C10-1) does not hide anything else
        pending = Violation("%s: %s" % (where, TOK_WHAT if not retain else "retained token boundaries changed"),
                            {"got": [list(g) for g in got], "source": source, "start": a, "retain": retain}, exp)
    return len(ids), pending


@subcheck("C10", "chunk_tokens", lambda tier: _tok_cases(tier), 1500, 40000,
          doc="chunk_token_sequences_by_slices on generated refs (known / missing / empty / inverted segments), slices with negative "
              "and large starts, partial, retain, ref_lens given|omitted: kept = tokens contained in (partial: overlapping) the slice, "
              "in order; boundaries unchanged if retain else minus the slice start",
          required_classes=["nonzero_start_kept_token", "partial", "retain", "ref_lens_omitted", "missing_segment"])
def _tok_check(case):
    import torch

    F, M = _lib()
    refs, slices, ref_lens = case["refs"], case["slices"], case["ref_lens"]
    N, R = len(refs), case["R"]
    refs_t = torch.tensor(refs, dtype=torch.long).view(N, R, 3)
    slices_t = torch.tensor(slices, dtype=torch.long).view(N, 2)
    if case["entry"] == "module":
        chunked, clens = M.ChunkTokenSequencesBySlices(case["partial"], case["retain"])(refs_t, slices_t, _lt(ref_lens))
    else:
        chunked, clens = F.chunk_token_sequences_by_slices(refs_t, slices_t, _lt(ref_lens), case["partial"], case["retain"])
    require(tuple(clens.shape) == (N,), "chunked_lens is not of shape (N,)", list(clens.shape), [N])
    clens = clens.tolist()
    require(chunked.ndim == 3 and chunked.shape[0] == N and chunked.shape[2] == 3 and chunked.shape[1] >= max(clens + [0]),
            "chunked is not of shape (N, R' >= max count, 3)", list(chunked.shape), [N, max(clens + [0]), 3])
    require(all(0 <= c <= R for c in clens), "chunked_lens out of range", clens, [0, R])
    eff = ref_lens if ref_lens is not None else [R] * N
    classes = ["partial" if case["partial"] else "full", "retain" if case["retain"] else "relative",
               "ref_lens_given" if ref_lens is not None else "ref_lens_omitted"]
    nontrivial = False
    pending = None
    for n in range(N):
        a, b = slices[n]
        got = [tuple(t) for t in chunked[n, :clens[n]].tolist()]
        counted = refs[n][:eff[n]]
        kept, pend = _check_tokens(counted, a, b, case["partial"], case["retain"], got, "row %d" % n)
        pending = pending or pend
        if kept and a != 0:
            classes.append("nonzero_start_kept_token")
            nontrivial = True
        if kept and a < 0:
            classes.append("negative_start_kept_token")
        if any(s < 0 or e < 0 for _, s, e in counted):
            classes.append("missing_segment")
        if any(O.token_verdict(s, e, a, b, case["partial"]) == O.EITHER for _, s, e in counted):
            classes.append("undetermined_token")
        if kept == 0:
            classes.append("row_keeps_nothing")
    if pending is not None:
        raise pending
    return Info(nontrivial, sorted(set(classes)))


@matcher("c10_token_boundaries_added")
def _m_token_sign(case, v):
    """Known finding: boundaries of kept tokens come out as source + slice start (documented: relative to the
    slice start, i.e. source - start).  Narrow: the selection of tokens was right (that is checked first), retain
    is off, the slice start is non-zero, and every observed boundary is exactly source + start."""
    if not v.get("what", "").endswith(TOK_WHAT) or v.get("kind") != "oracle":
        return False
    o = v.get("observed") or {}
    a = o.get("start")
    if o.get("retain") is not False or not isinstance(a, int) or a == 0:
        return False
    got, source = o.get("got"), o.get("source")
    if not got or len(got) != len(source):
        return False
    return all(g[0] == s[0] and g[1] == s[1] + a and g[2] == s[2] + a for g, s in zip(got, source))


# ------------------------------------------------------------------ the chunking command, end to end


@st.composite
def _dir_cases(draw, tier):
    big = tier == "thorough"
    nutt = draw(st.integers(1, 3 if not big else 5))
    policy = draw(st.sampled_from(["fixed", "ali", "ref"]))
    has_ali = policy == "ali" or draw(st.booleans())
    has_ref = policy == "ref" or draw(st.booleans())
    fdim = draw(st.integers(1, 3))
    utts = []
    for u in range(nutt):
        T = draw(st.one_of(st.integers(1, 8 if not big else 14), st.integers(4, 10 if not big else 16)))
        ali = None
        if has_ali:
            seq = []
            while len(seq) < T:
                seq.extend([draw(st.integers(0, 2))] * draw(st.integers(1, 3)))
            ali = seq[:T]
        ref = None
        if has_ref:
            R = draw(st.integers(0, 4))
            ref = []
            for r in range(R):
                if draw(st.sampled_from([True, True, True, False])):
                    s = draw(st.integers(0, T))
                    e = draw(st.integers(s, T))
                else:
                    s = e = -1
                ref.append([11 * r + 5, s, e])
            if policy == "ref":
                # the command passes no lengths: keep the default frame count well defined by putting
                # the known segment with the latest end last
                known = [t for t in ref if t[1] >= 0]
                if known:
                    last = max(known, key=lambda t: t[2])
                    ref.remove(last)
                    ref.append(last)
        utts.append({"T": T, "ali": ali, "ref": ref})
    pad_mode = draw(st.sampled_from([None, None, "constant", "replicate", "reflect"]))
    return {"utts": utts, "fdim": fdim, "policy": policy, "window": draw(st.sampled_from(WINDOWS)),
            "lobe": draw(st.sampled_from([0, 0, 1, 1, 1, 2, 2, 3])), "pad_mode": pad_mode, "pad_constant": draw(st.sampled_from([0, -1, 3])),
            "partial": draw(st.sampled_from([False, False, True])), "retain": draw(st.sampled_from([False, False, False, True])),
            "fmt": draw(st.sampled_from(["idx", "default"])), "prefix": draw(st.sampled_from(["", "", "p-"]))}


def _utt_windows(case, utt):
    valid = case["pad_mode"] is None
    if case["policy"] == "fixed":
        return O.fixed_windows(utt["T"], case["window"], valid, case["lobe"])
    if case["policy"] == "ali":
        return O.ali_windows(utt["ali"], case["window"], valid, case["lobe"])
    ol, det = _default_other_len(utt["ref"])
    if not det:
        known = [t for t in utt["ref"] if t[1] >= 0]
        if known:
            raise Reject()  # cannot happen by construction
        return []
    ws = O.ref_windows(utt["ref"], ol, case["window"], valid, case["lobe"])
    if any(v == O.EITHER for v, _, _ in ws):
        raise Reject()  # number of chunks not determined by the documents
    return [(s, e) for _, s, e in ws]


@subcheck("C10", "chunk_dir_cli", lambda tier: _dir_cases(tier), 240, 4000,
          doc="a generated well-formed data directory (1..3|5 utterances, feat + optional ali / ref) is chunked by the "
              "chunk-torch-spect-data-dir command under generated flags (policy, window, lobe, pad mode, partial, retain, format): "
              "exactly the oracle's chunk names are written, every chunk's feat / ali / ref equals the oracle's restriction of the "
              "source, and (contained tokens, relative boundaries) the output passes validate_spect_data_set",
          required_classes=["policy_fixed", "policy_ali", "policy_ref", "validated", "padded_chunk", "ref_chunk_with_token"],
          timeout_s=3000)
def _dir_check(case):
    import torch
    from pydrobert.torch import command_line, data

    mode = case["pad_mode"] or "constant"
    value = case["pad_constant"]
    prefix = case["prefix"]
    expected = {}  # chunk name -> (utterance id, utterance, start, end)
    illegal = False
    crossing = False
    feats = {}
    windows = [_utt_windows(case, utt) for utt in case["utts"]]
    # the default name pattern {utt_id}.{start:05d}.{end:05d} is only usable when no utterance has two equal windows
    fmt_all = "default" if case["fmt"] == "default" and all(len(set(ws)) == len(ws) for ws in windows) else "idx"
    for u, utt in enumerate(case["utts"]):
        uid = "utt%d" % u
        T = utt["T"]
        feats[uid] = P.make_x(1, T, [case["fdim"]], base=1 + 100 * u)[0]
        for idx, (s, e) in enumerate(windows[u]):
            l, r = P.slice_pads(s, e, T)
            if not P.pad_legal(mode, T, l, r):
                illegal = True
            if l or r:
                crossing = True
            name = ("%s.%05d.%05d" % (uid, s, e)) if fmt_all == "default" else "%s.%d" % (uid, idx)
            expected[name] = (uid, utt, s, e)
    has_ali = case["utts"][0]["ali"] is not None
    has_ref = case["utts"][0]["ref"] is not None
    tmp = tempfile.mkdtemp(prefix="vf_")
    try:
        in_dir, out_dir = os.path.join(tmp, "in"), os.path.join(tmp, "out")
        os.makedirs(os.path.join(in_dir, "feat"))
        if has_ali:
            os.makedirs(os.path.join(in_dir, "ali"))
        if has_ref:
            os.makedirs(os.path.join(in_dir, "ref"))
        for u, utt in enumerate(case["utts"]):
            base = "%sutt%d.pt" % (prefix, u)
            torch.save(torch.from_numpy(feats["utt%d" % u].copy()), os.path.join(in_dir, "feat", base))
            if has_ali:
                torch.save(torch.tensor(utt["ali"], dtype=torch.long), os.path.join(in_dir, "ali", base))
            if has_ref:
                torch.save(torch.tensor(utt["ref"], dtype=torch.long).view(-1, 3), os.path.join(in_dir, "ref", base))
        args = [in_dir, out_dir, "--policy", case["policy"], "--window-type", case["window"], "--lobe-size", str(case["lobe"]),
                "--pad-constant", str(float(value)), "--num-workers", "0"]  # serial: no worker processes
        if prefix:
            args += ["--file-prefix", prefix]
        if case["pad_mode"] is not None:
            args += ["--pad-mode", case["pad_mode"]]
        if case["partial"]:
            args.append("--partial-tokens")
        if case["retain"]:
            args.append("--retain-token-boundaries")
        if fmt_all == "idx":
            args.append("--format-utt={utt_id}.{idx}")
        classes = ["policy_" + case["policy"], "pad_" + str(case["pad_mode"]), "fmt_" + fmt_all] + \
                  ["window_" + case["window"], "lobe_%d" % case["lobe"]]
        with warnings.catch_warnings():
            warnings.simplefilter("ignore")
            if illegal:
                with expect_raises(NotImplementedError, what="reflect padding with a window needing a pad >= the utterance length"):
                    command_line.chunk_torch_spect_data_dir(args)
                return Info(False, classes + ["documented_exception"])
            rc = command_line.chunk_torch_spect_data_dir(args)
        require(not rc, "the command returned a non-zero status", rc, 0)
        names = sorted(expected)
        files = sorted(os.listdir(os.path.join(out_dir, "feat")))
        require(files == sorted(prefix + n + ".pt" for n in names), "chunk files written differ from the documented windows",
                files, sorted(prefix + n + ".pt" for n in names))
        for sub, present in (("ali", has_ali), ("ref", has_ref)):
            d = os.path.join(out_dir, sub)
            got_files = sorted(os.listdir(d)) if os.path.isdir(d) else []
            require(got_files == (files if present else []), "%s files differ from the feature chunks" % sub, got_files,
                    files if present else [])
        kept_any = False
        nonzero_kept = False
        pending = None
        for name in names:
            uid, utt, s, e = expected[name]
            base = prefix + name + ".pt"
            got = torch.load(os.path.join(out_dir, "feat", base)).numpy()
            exp = P.chunk_row(feats[uid], s, e, mode, value)
            require(got.shape == exp.shape and bool(np.array_equal(got, exp)),
                    "chunk %s: features differ from the source restricted to [%d, %d)" % (name, s, e), got, exp)
            if has_ali:
                got = torch.load(os.path.join(out_dir, "ali", base))
                require(got.dtype == torch.long, "chunk %s: alignment is not a long tensor" % name, str(got.dtype), "torch.int64")
                exp = P.chunk_row(np.asarray(utt["ali"], dtype=np.int64), s, e, mode, value)
                require(got.numpy().shape == exp.shape and bool(np.array_equal(got.numpy(), exp)),
                        "chunk %s: alignment differs from the source restricted to [%d, %d)" % (name, s, e), got, exp)
            if has_ref:
                got = torch.load(os.path.join(out_dir, "ref", base))
                require(got.ndim == 2 and got.shape[1] == 3 and got.dtype == torch.long, "chunk %s: reference is not a long (R, 3) tensor" % name,
                        [str(got.dtype), list(got.shape)], "int64 (R, 3)")
                kept, pend = _check_tokens(utt["ref"], s, e, case["partial"], case["retain"], [tuple(t) for t in got.tolist()],
                                           "chunk %s" % name)
                pending = pending or pend
                kept_any = kept_any or kept > 0
                nonzero_kept = nonzero_kept or (kept > 0 and s != 0)
        if pending is not None:
            raise pending  # after every chunk's features, alignments and token selection have been compared
        if names and not case["partial"] and not case["retain"]:
            ds = data.SpectDataSet(out_dir, file_prefix=prefix)
            try:
                data.validate_spect_data_set(ds)
            except ValueError as err:
                raise Violation("the chunked directory does not pass validate_spect_data_set", str(err)[:300], "well-formed")
            require(len(ds) == len(names), "data set over the chunked directory has the wrong size", len(ds), len(names))
            classes.append("validated")
        if crossing:
            classes.append("padded_chunk")
        if kept_any:
            classes.append("ref_chunk_with_token")
        if nonzero_kept:
            classes.append("nonzero_start_kept_token")
        if not names:
            classes.append("no_chunks")
        return Info(bool(names) and (case["lobe"] > 0 and crossing or nonzero_kept or case["policy"] != "fixed"), classes)
    finally:
        shutil.rmtree(tmp, ignore_errors=True)
