"""C02 Error rate counts the edits of some minimum-cost alignment."""
from __future__ import annotations

import math
import warnings

from hypothesis import strategies as st

from ..core import Info, close, require, subcheck
from ..oracles import strings as O
from . import _strgen as G


def _lib():
    import pydrobert.torch.functional as F
    import pydrobert.torch.modules as M

    return F, M


def _config(draw, tier, **bkw):
    return {
        "b": draw(G.batch(tier, **bkw)),
        "costs": draw(G.dyadic_costs(force_ties=True)),
        "include_eos": draw(st.booleans()),
        "norm": draw(st.booleans()),
        "batch_first": draw(st.booleans()),
        "exclude_last": draw(st.booleans()),
        "padding": draw(st.sampled_from([-1, -100, 0, 7])),
        "entry": draw(st.sampled_from(["function", "module"])),
        "layout": draw(st.sampled_from(G.LAYOUTS)),
    }


@st.composite
def _case(draw, tier, **bkw):
    return _config(draw, tier, **bkw)


def _norm_bounds(lo, hi, r, k_is_empty, norm):
    """Expected (lo, hi) of the reported figure for a pair with reference length r."""
    if not norm:
        return float(lo), float(hi)
    if r == 0:
        v = 0.0 if k_is_empty else 1.0
        return v, v
    return lo / r, hi / r


def _classes(case, b, rl, hl, any_gap):
    cl = G.common_classes(b, rl, hl, case["costs"])
    if any_gap:
        cl.append("tie_matters")
    if case["norm"]:
        cl.append("norm")
    if 0 in rl:
        cl.append("empty_ref")
    cl.append("entry_" + case["entry"])
    cl.append("layout_" + case.get("layout", "contiguous"))
    nt = (("costs_unequal" in cl and any_gap) or "empty_ref" in cl or "ragged" in cl)
    return nt, cl


def _call_er(case, ref, hyp):
    F, M = _lib()
    ins, dele, sub = case["costs"]
    kw = dict(eos=case["b"]["eos"], include_eos=case["include_eos"], norm=case["norm"], batch_first=case["batch_first"],
              ins_cost=ins, del_cost=dele, sub_cost=sub)
    with warnings.catch_warnings():
        warnings.simplefilter("ignore")
        if case["entry"] == "module":
            return M.ErrorRate(warn=False, **kw)(ref, hyp)
        return F.error_rate(ref, hyp, warn=False, **kw)


def _call_prefix_er(case, ref, hyp):
    F, M = _lib()
    ins, dele, sub = case["costs"]
    kw = dict(eos=case["b"]["eos"], include_eos=case["include_eos"], norm=case["norm"], batch_first=case["batch_first"],
              ins_cost=ins, del_cost=dele, sub_cost=sub, padding=case["padding"], exclude_last=case["exclude_last"])
    with warnings.catch_warnings():
        warnings.simplefilter("ignore")
        if case["entry"] == "module":
            return M.PrefixErrorRates(warn=False, **kw)(ref, hyp)
        return F.prefix_error_rates(ref, hyp, warn=False, **kw)


@subcheck("C02", "er_bounds", lambda tier: _case(tier), 2500, 60000,
          doc="error_rate (function/module): fewest <= reported <= most edits among ALL minimum-cost alignments (lexicographic DP); == unit Levenshtein when costs are equal; normalisation and empty-reference convention",
          required_classes=["tie_matters", "empty_ref", "costs_equal", "costs_unequal", "norm"])
def _er_bounds(case):
    b = case["b"]
    ref, hyp = G.to_tensors(b, case["batch_first"], case.get("layout", "contiguous"))
    got = _call_er(case, ref, hyp)
    require(tuple(got.shape) == (b["N"],), "error_rate result shape", tuple(got.shape), (b["N"],))
    got = got.tolist()
    rl, hl = G.lens_of(b, case["include_eos"])
    equal = G.cost_class(case["costs"]) == "costs_equal"
    any_gap = False
    for n in range(b["N"]):
        r, h = b["refs"][n][: rl[n]], b["hyps"][n][: hl[n]]
        _, lo, hi = O.wf_count_table(r, h, *case["costs"])[len(r)][len(h)]
        if equal:
            lev = O.unit_levenshtein(r, h)
            lo = hi = lev
        if lo != hi:
            any_gap = True
        elo, ehi = _norm_bounds(lo, hi, len(r), len(h) == 0, case["norm"])
        ok = (elo - 1e-6 <= got[n] <= ehi + 1e-6) and not math.isnan(got[n])
        require(ok, "error rate of pair %d outside [fewest, most] edits of a min-cost alignment (ref=%s hyp=%s costs=%s)"
                % (n, r, h, case["costs"]), got[n], [elo, ehi])
        if not case["norm"]:
            require(abs(got[n] - round(got[n])) < 1e-6, "un-normalised error rate is not a whole number of edits", got[n], None)
    nt, cl = _classes(case, b, rl, hl, any_gap)
    return Info(nontrivial=nt, classes=cl)


@subcheck("C02", "prefix_er_bounds", lambda tier: _case(tier), 2500, 60000,
          doc="prefix_error_rates: same bounds for every hypothesis prefix, padding past the hypothesis, exclude_last",
          required_classes=["tie_matters", "empty_ref", "has_padding", "exclude_last"])
def _prefix_er_bounds(case):
    b = case["b"]
    N, H = b["N"], b["H"]
    ref, hyp = G.to_tensors(b, case["batch_first"], case.get("layout", "contiguous"))
    got = _call_prefix_er(case, ref, hyp)
    rows = H if case["exclude_last"] else H + 1
    exp_shape = (N, rows) if case["batch_first"] else (rows, N)
    require(tuple(got.shape) == exp_shape, "prefix_error_rates result shape", tuple(got.shape), exp_shape)
    if not case["batch_first"]:
        got = got.t()
    got = got.tolist()
    rl, hl = G.lens_of(b, case["include_eos"])
    equal = G.cost_class(case["costs"]) == "costs_equal"
    pad = float(case["padding"])
    any_gap = saw_pad = False
    for n in range(N):
        r, h = b["refs"][n][: rl[n]], b["hyps"][n][: hl[n]]
        C = O.wf_count_table(r, h, *case["costs"])
        nprefix = len(h) + (0 if case["exclude_last"] else 1)
        for k in range(rows):
            if k >= nprefix:
                saw_pad = True
                require(got[n][k] == pad, "position past the hypothesis is not the padding value (pair %d index %d)" % (n, k),
                        got[n][k], pad)
                continue
            _, lo, hi = C[len(r)][k]
            if equal:
                lo = hi = O.unit_levenshtein(r, h[:k])
            if lo != hi:
                any_gap = True
            elo, ehi = _norm_bounds(lo, hi, len(r), k == 0, case["norm"])
            ok = (elo - 1e-6 <= got[n][k] <= ehi + 1e-6) and not math.isnan(got[n][k])
            require(ok, "prefix error rate pair %d prefix %d outside bounds (ref=%s hyp=%s costs=%s)" % (n, k, r, h, case["costs"]),
                    got[n][k], [elo, ehi])
    nt, cl = _classes(case, b, rl, hl, any_gap)
    if saw_pad:
        cl.append("has_padding")
    if case["exclude_last"]:
        cl.append("exclude_last")
    return Info(nontrivial=nt, classes=cl)


@subcheck("C02", "er_consistency", lambda tier: _case(tier), 1200, 30000,
          doc="metamorphic: last valid prefix error rate == whole-sequence error rate bounds; solo pair == in batch (error_rate)",
          required_classes=["ragged"])
def _er_consistency(case):
    import torch

    b = case["b"]
    bf = case["batch_first"]
    ref, hyp = G.to_tensors(b, bf)
    full = _call_er(case, ref, hyp).tolist()
    rl, hl = G.lens_of(b, True)
    crl, chl = G.lens_of(b, case["include_eos"])
    eos = b["eos"]
    for n in range(b["N"]):
        r_row = b["refs"][n] if eos is None else b["refs"][n][: rl[n]]
        h_row = b["hyps"][n] if eos is None else b["hyps"][n][: hl[n]]
        if not r_row or not h_row:
            continue
        rt = torch.tensor([r_row], dtype=torch.long)
        ht = torch.tensor([h_row], dtype=torch.long)
        if not bf:
            rt, ht = rt.t().contiguous(), ht.t().contiguous()
        solo = _call_er(case, rt, ht).tolist()[0]
        require(close(solo, full[n], rel=1e-6, abs_=1e-7), "pair %d: error rate differs between batch and solo call" % n, full[n], solo)
    nt, cl = _classes(case, b, crl, chl, False)
    return Info(nontrivial="ragged" in cl, classes=cl)


@st.composite
def _zero_dim_case(draw, tier):
    c = _config(draw, tier, allow_zero_dim=True, max_len=4)
    which = draw(st.sampled_from(["R", "H", "both"]))
    b = c["b"]
    if which in ("R", "both"):
        b["R"] = 0
        b["refs"] = [[] for _ in range(b["N"])]
    if which in ("H", "both"):
        b["H"] = 0
        b["hyps"] = [[] for _ in range(b["N"])]
    c["which"] = draw(st.sampled_from(["er", "prefix"]))
    return c


@subcheck("C02", "zero_dim", lambda tier: _zero_dim_case(tier), 400, 5000,
          doc="sequence dimension of size zero with/without eos: same bounds oracle")
def _zero_dim(case):
    info = _er_bounds(case) if case["which"] == "er" else _prefix_er_bounds(case)
    info.nontrivial = True
    info.classes.append("eos_set" if case["b"]["eos"] is not None else "eos_unset")
    return info


# ------------------------------------------------------------------ minimum error rate loss

_LOGP = st.integers(-24, 0).map(lambda k: k / 4)


@st.composite
def _mer_case(draw, tier):
    big = tier == "thorough"
    N = draw(st.integers(1, 3))
    Msamp = draw(st.integers(2, 4))
    R = draw(st.sampled_from([0] + list(range(1, (6 if big else 4) + 1)) * 3))
    H = draw(st.sampled_from([0] + list(range(1, (6 if big else 4) + 1)) * 3))
    A = draw(st.integers(1, 3))
    eos_kind = draw(st.sampled_from(["none", "outside", "inside"]))
    eos = None if eos_kind == "none" else (A if eos_kind == "outside" else draw(st.integers(0, A - 1)))
    ref3 = draw(st.booleans())
    if ref3:
        refs = [[draw(G.row(R, A, eos)) for _ in range(Msamp)] for _ in range(N)]
    else:
        refs = [draw(G.row(R, A, eos)) for _ in range(N)]
    hyps = [[draw(G.row(H, A, eos)) for _ in range(Msamp)] for _ in range(N)]
    v = draw(st.integers(1, 8)) / 4
    costs = draw(st.sampled_from([[1.0, 1.0, 1.0], [v, v, v]]))
    return {
        "N": N, "M": Msamp, "R": R, "H": H, "A": A, "eos": eos, "ref3": ref3, "refs": refs, "hyps": hyps,
        # sequence log-probabilities are routinely in the hundreds below zero: per-row offsets
        "log_probs": [[x + off for x in rowv] for rowv, off in zip(
            [[draw(_LOGP) for _ in range(Msamp)] for _ in range(N)],
            [draw(st.sampled_from([0.0, 0.0, -20.0, -90.0, -120.0, -300.0, -1000.0, -20000.0])) for _ in range(N)])],
        "costs": costs, "include_eos": draw(st.booleans()), "norm": draw(st.booleans()),
        "sub_avg": draw(st.booleans()), "batch_first": draw(st.booleans()),
        "reduction": draw(st.sampled_from(["none", "sum", "mean"])),
        "entry": draw(st.sampled_from(["function", "module"])),
        "layout": draw(st.sampled_from(G.LAYOUTS)),
    }


@subcheck("C02", "mer_loss", lambda tier: _mer_case(tier), 1200, 25000,
          doc="minimum_error_rate_loss (equal costs, where the error rate is unique): softmax(log_probs) * (er - mean er) by scalar arithmetic; 2-D and 3-D refs, both layouts, every reduction",
          required_classes=["ref3", "ref2", "sub_avg", "reduction_none", "reduction_sum", "reduction_mean", "very_negative_log_probs", "zero_size_sequence_dim"])
def _mer_loss(case):
    import torch

    F, M = _lib()
    N, Ms, R, H = case["N"], case["M"], case["R"], case["H"]
    eos = case["eos"]
    hyp = torch.tensor(case["hyps"], dtype=torch.long).reshape(N, Ms, H)  # (N, M, H)
    ref = torch.tensor(case["refs"], dtype=torch.long).reshape((N, Ms, R) if case["ref3"] else (N, R))
    if not case["batch_first"]:
        hyp = hyp.permute(2, 0, 1).contiguous()  # (H, N, M)
        ref = (ref.permute(2, 0, 1) if case["ref3"] else ref.t()).contiguous()
    lp = torch.tensor(case["log_probs"], dtype=torch.float)
    ins, dele, sub = case["costs"]
    kw = dict(eos=eos, include_eos=case["include_eos"], sub_avg=case["sub_avg"], batch_first=case["batch_first"],
              norm=case["norm"], ins_cost=ins, del_cost=dele, sub_cost=sub, reduction=case["reduction"])
    with warnings.catch_warnings():
        warnings.simplefilter("ignore")
        if case["entry"] == "module":
            got = M.MinimumErrorRateLoss(**kw)(lp, ref, hyp, warn=False)
        else:
            got = F.minimum_error_rate_loss(lp, ref, hyp, warn=False, **kw)
    # oracle
    exp = []
    saw_empty_ref = False
    for n in range(N):
        ers = []
        for m in range(Ms):
            rrow = case["refs"][n][m] if case["ref3"] else case["refs"][n]
            hrow = case["hyps"][n][m]
            r = rrow[: O.counted_len(rrow, eos, case["include_eos"])]
            h = hrow[: O.counted_len(hrow, eos, case["include_eos"])]
            e = float(O.unit_levenshtein(r, h))
            if case["norm"]:
                if len(r) == 0:
                    saw_empty_ref = True
                    e = 0.0 if len(h) == 0 else 1.0
                else:
                    e = e / len(r)
            ers.append(e)
        if case["sub_avg"]:
            mu = sum(ers) / Ms
            ers = [e - mu for e in ers]
        mx = max(case["log_probs"][n])
        w = [math.exp(x - mx) for x in case["log_probs"][n]]
        z = sum(w)
        exp.append([e * wi / z for e, wi in zip(ers, w)])
    flat = [x for rowv in exp for x in rowv]
    if case["reduction"] == "none":
        require(tuple(got.shape) == (N, Ms), "loss shape with reduction none", tuple(got.shape), (N, Ms))
        g = got.tolist()
        for n in range(N):
            for m in range(Ms):
                require(close(g[n][m], exp[n][m], rel=1e-5, abs_=1e-6), "loss[%d][%d]" % (n, m), g[n][m], exp[n][m])
    elif case["reduction"] == "sum":
        require(got.dim() == 0, "sum-reduced loss is not a scalar", tuple(got.shape), ())
        require(close(got.item(), sum(flat), rel=1e-5, abs_=2e-6), "sum-reduced loss", got.item(), sum(flat))
    else:
        require(got.dim() == 0, "mean-reduced loss is not a scalar", tuple(got.shape), ())
        # 'mean' admits two readings (mean over all entries / expected error rate per element averaged over the batch)
        cands = [sum(flat) / len(flat), sum(flat) / N]
        require(any(close(got.item(), c, rel=1e-5, abs_=2e-6) for c in cands), "mean-reduced loss", got.item(), cands)
    cl = ["ref3" if case["ref3"] else "ref2", "reduction_" + case["reduction"], "entry_" + case["entry"]]
    if case["sub_avg"]:
        cl.append("sub_avg")
    if saw_empty_ref:
        cl.append("empty_ref")
    if eos is not None:
        cl.append("eos_set")
    if min(min(rowv) for rowv in case["log_probs"]) < -100:
        cl.append("very_negative_log_probs")
    if R == 0 or H == 0:
        cl.append("zero_size_sequence_dim")
    distinct_er = len(set(round(x, 9) for x in flat)) > 1
    return Info(nontrivial=distinct_er, classes=cl)


# ------------------------------------------------------------ long structured pairs


@st.composite
def _long_case(draw, tier):
    return {
        "b": draw(G.long_batch(tier)),
        "costs": draw(G.dyadic_costs(force_ties=True)),
        "include_eos": draw(st.booleans()),
        "norm": draw(st.booleans()),
        "batch_first": draw(st.booleans()),
        "exclude_last": draw(st.booleans()),
        "padding": -1,
        "entry": "function",
        "which": draw(st.sampled_from(["er", "er", "prefix"])),
    }


@subcheck("C02", "long_pairs", lambda tier: _long_case(tier), 400, 6000,
          doc="references of 10..40 (thorough ..100) tokens and hypotheses derived by edit runs: same all-optimal-alignments bounds",
          required_classes=["len_ge_16", "len_ge_32"])
def _long_pairs(case):
    info = _er_bounds(case) if case["which"] == "er" else _prefix_er_bounds(case)
    m = max(len(r) for r in case["b"]["refs"])
    if m >= 16:
        info.classes.append("len_ge_16")
    if m >= 32:
        info.classes.append("len_ge_32")
    info.nontrivial = True
    return info


@st.composite
def _eos_wide_case(draw, tier):
    return {
        "b": draw(G.eos_padded_wide_batch(tier)),
        "costs": draw(G.dyadic_costs(force_ties=True)),
        "include_eos": draw(st.booleans()), "norm": draw(st.booleans()), "batch_first": draw(st.booleans()),
        "exclude_last": draw(st.booleans()), "padding": -1, "entry": "function", "layout": "contiguous",
        "which": draw(st.sampled_from(["er", "prefix"])),
    }


@subcheck("C02", "eos_padded_wide", lambda tier: _eos_wide_case(tier), 40, 300,
          doc="transcripts of <= 6 tokens in tensors 257..530 (thorough ..2049) wide, padded with copies of eos: same bounds oracle")
def _eos_padded_wide(case):
    info = _er_bounds(case) if case["which"] == "er" else _prefix_er_bounds(case)
    info.nontrivial = True
    info.classes.append("width_ge_257")
    return info
