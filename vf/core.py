"""Common machinery: sub-check registry, hypothesis driver, verdicts, evidence, replay.

A *sub-check* is a pair (strategy, check):

  strategy(tier) -> hypothesis SearchStrategy producing a JSON-serialisable *case*
  check(case)    -> Info(nontrivial: bool, classes: list[str]); raises Violation

Keeping the case plain data means a failing case *is* the replay file, and
``check(case)`` re-runs it without Hypothesis.
"""
from __future__ import annotations

import contextlib
import hashlib
import json
import math
import os
import sys
import time
import traceback
from dataclasses import dataclass, field
from typing import Any, Callable, Dict, List, Optional

VERIF_DIR = os.path.dirname(os.path.dirname(os.path.abspath(__file__)))


def _bootstrap_paths():
    """Make hypothesis and the repository under test importable."""
    deps = os.path.join(VERIF_DIR, ".deps")
    if os.path.isdir(deps) and deps not in sys.path:
        sys.path.append(deps)
    src = os.environ.get("VERIF_REPO_SRC")
    if src:
        # scratch copy used when testing the checks against seeded changes
        sys.path.insert(0, src)


_bootstrap_paths()


class Violation(Exception):
    """The oracle disagrees with the code under test."""

    def __init__(self, what: str, observed: Any = None, expected: Any = None, kind: str = "oracle"):
        super().__init__(what)
        self.what = what
        self.observed = observed
        self.expected = expected
        self.kind = kind


class Reject(Exception):
    """Case lies outside the property's domain (counted, never a verdict)."""


@dataclass
class Info:
    nontrivial: bool = False
    classes: List[str] = field(default_factory=list)


@dataclass
class SubCheck:
    prop: str
    name: str
    strategy: Callable[[str], Any]
    check: Callable[[Any], Optional[Info]]
    quick: int
    thorough: int
    doc: str = ""
    # classes whose count must be non-zero for the run to be meaningful
    required_classes: List[str] = field(default_factory=list)
    # True => the strategy enumerates a finite space completely (exhaustive)
    exhaustive: bool = False
    timeout_s: int = 3000


REGISTRY: Dict[str, List[SubCheck]] = {}


def subcheck(prop, name, strategy, quick, thorough, doc="", required_classes=(), timeout_s=3000,
             exhaustive=False):
    def deco(fn):
        sc = SubCheck(prop, name, strategy, fn, quick, thorough, doc or (fn.__doc__ or "").strip(),
                      list(required_classes), exhaustive=exhaustive, timeout_s=timeout_s)
        REGISTRY.setdefault(prop, []).append(sc)
        return fn

    return deco


# --------------------------------------------------------------------------- utils


def jsonable(x):
    """Convert tensors / numpy / tuples / sets to plain JSON data."""
    try:
        import torch
    except Exception:  # pragma: no cover
        torch = None
    import numpy as np

    if x is None or isinstance(x, (bool, int, str)):
        return x
    if isinstance(x, float):
        if math.isnan(x):
            return "nan"
        if math.isinf(x):
            return "inf" if x > 0 else "-inf"
        return x
    if torch is not None and isinstance(x, torch.Tensor):
        return jsonable(x.detach().cpu().tolist())
    if isinstance(x, np.ndarray):
        return jsonable(x.tolist())
    if isinstance(x, (np.integer,)):
        return int(x)
    if isinstance(x, (np.floating,)):
        return jsonable(float(x))
    if isinstance(x, dict):
        return {str(k): jsonable(v) for k, v in x.items()}
    if isinstance(x, (list, tuple)):
        return [jsonable(v) for v in x]
    if isinstance(x, (set, frozenset)):
        return sorted((jsonable(v) for v in x), key=repr)
    if isinstance(x, bytes):
        return x.decode("latin-1")
    return repr(x)


def canon(case) -> str:
    return json.dumps(jsonable(case), sort_keys=True, separators=(",", ":"))


def fingerprint(case) -> str:
    return hashlib.sha1(canon(case).encode()).hexdigest()[:16]


def derive_seed(base: int, *parts) -> int:
    h = hashlib.sha256(("%d|" % base + "|".join(str(p) for p in parts)).encode()).digest()
    return int.from_bytes(h[:8], "big")


def lib_frames(tb) -> List[str]:
    """Frames of the traceback that lie inside the package under test."""
    out = []
    for fs in traceback.extract_tb(tb):
        fn = fs.filename.replace("\\", "/")
        if "/pydrobert/torch/" in fn:
            out.append("%s:%s:%d" % (os.path.basename(fn), fs.name, fs.lineno))
    return out


@contextlib.contextmanager
def expect_raises(*excs, what="expected exception"):
    """The documentation promises an exception here."""
    try:
        yield
    except excs:
        return
    raise Violation("%s: no exception raised" % what, observed="no exception",
                    expected="/".join(e.__name__ for e in excs), kind="noraise")


def close(a: float, b: float, rel=1e-5, abs_=1e-6) -> bool:
    if isinstance(a, str) or isinstance(b, str):
        return a == b
    if math.isnan(a) or math.isnan(b):
        return math.isnan(a) and math.isnan(b)
    if math.isinf(a) or math.isinf(b):
        return a == b
    return abs(a - b) <= abs_ + rel * max(abs(a), abs(b))


def require(cond, what, observed=None, expected=None, kind="oracle"):
    if not cond:
        raise Violation(what, observed, expected, kind)


# ---------------------------------------------------------------- known findings


def load_known_findings():
    """Committed file(s) only; never written at run time."""
    out = []
    p = os.path.join(VERIF_DIR, "known_findings.json")
    if os.path.exists(p):
        with open(p) as f:
            out.extend(json.load(f).get("entries", []))
    return out


# matcher registry: name -> fn(case, violation_dict) -> bool
MATCHERS: Dict[str, Callable[[Any, dict], bool]] = {}


def matcher(name):
    def deco(fn):
        MATCHERS[name] = fn
        return fn

    return deco


def violation_dict(v: Violation, tb=None) -> dict:
    return {
        "what": v.what,
        "kind": v.kind,
        "observed": jsonable(v.observed),
        "expected": jsonable(v.expected),
    }


def run_case(sc: SubCheck, case):
    """Run one case. Returns ("ok", Info) | ("reject", None) | ("violation", dict) .

    Any exception that passes through a frame of the package under test is a violation
    (the listed APIs' contract is 'compute the answer'); any other exception is a harness
    error and propagates.
    """
    try:
        info = sc.check(case)
        return "ok", (info or Info())
    except Reject:
        return "reject", None
    except Violation as v:
        return "violation", violation_dict(v)
    except (KeyboardInterrupt, SystemExit, MemoryError):
        raise
    except BaseException as e:  # noqa
        frames = lib_frames(e.__traceback__)
        if frames:
            return "violation", {
                "what": "library raised %s: %s" % (type(e).__name__, str(e)[:300]),
                "kind": "raised",
                "observed": "%s at %s" % (type(e).__name__, frames[-1]),
                "expected": "no exception",
                "exc_type": type(e).__name__,
                "frame": frames[-1],
            }
        raise


def match_known(sc: SubCheck, case, vd: dict, findings) -> Optional[dict]:
    for f in findings:
        if f.get("kind") != "finding" or f.get("property") != sc.prop:
            continue
        subs = f.get("subchecks")
        if subs and sc.name not in subs:
            continue
        m = MATCHERS.get(f["match"])
        if m is None:
            continue
        try:
            if m(case, vd):
                return f
        except Exception:
            continue
    return None


# ------------------------------------------------------------------ unit runner


@dataclass
class UnitResult:
    prop: str
    sub: str
    shard: int
    evaluations: int = 0
    rejected: int = 0
    nontrivial_fps: List[str] = field(default_factory=list)
    classes: Dict[str, int] = field(default_factory=dict)
    samples: List[Any] = field(default_factory=list)
    known: Dict[str, int] = field(default_factory=dict)
    known_samples: Dict[str, Any] = field(default_factory=dict)
    violations: List[dict] = field(default_factory=list)
    harness_error: Optional[str] = None
    wall_s: float = 0.0
    exhausted: bool = False


def run_unit(sc: SubCheck, tier: str, base_seed: int, shard: int, nshards: int,
             max_examples: Optional[int] = None) -> UnitResult:
    import hypothesis
    from hypothesis import HealthCheck, Phase, given, settings
    from hypothesis import seed as hseed

    res = UnitResult(sc.prop, sc.name, shard)
    findings = load_known_findings()
    t0 = time.time()
    n = max_examples if max_examples is not None else (sc.quick if tier == "quick" else sc.thorough)
    n = max(1, math.ceil(n / nshards))
    fps = set()
    state = {"fail": None, "after_fail": 0}
    shrink_budget = 300 if tier == "quick" else 3000
    max_samples = 4
    trivial_samples = []

    class _Fail(Exception):
        pass

    def body(case):
        if state["fail"] is not None:
            state["after_fail"] += 1
            if state["after_fail"] > shrink_budget:
                return  # stop the shrinker: pretend everything passes from now on
        status, payload = run_case(sc, case)
        if state["fail"] is None:
            res.evaluations += 1
        if status == "reject":
            res.rejected += 1
            return
        if status == "ok":
            if state["fail"] is None:
                for c in payload.classes:
                    res.classes[c] = res.classes.get(c, 0) + 1
                if payload.nontrivial:
                    fp = fingerprint(case)
                    if fp not in fps:
                        fps.add(fp)
                        if len(res.samples) < max_samples:
                            res.samples.append({"nontrivial": True, "classes": payload.classes, "case": jsonable(case)})
                elif len(trivial_samples) < 1:
                    trivial_samples.append({"nontrivial": False, "classes": payload.classes, "case": jsonable(case)})
            return
        vd = payload
        kf = match_known(sc, case, vd, findings)
        if kf is not None:
            if state["fail"] is None:
                res.known[kf["id"]] = res.known.get(kf["id"], 0) + 1
                if kf["id"] not in res.known_samples:
                    res.known_samples[kf["id"]] = {"case": jsonable(case), "violation": vd}
            return
        state["fail"] = {"case": jsonable(case), "violation": vd}
        raise _Fail(vd["what"])

    phases = [Phase.explicit, Phase.generate, Phase.shrink]
    strat = sc.strategy(tier)
    if isinstance(strat, (list, tuple)):
        # finite space enumerated completely (sharded by index); no Hypothesis involved
        res.exhausted = True
        for i, case in enumerate(strat):
            if i % nshards != shard:
                continue
            try:
                body(case)
            except _Fail:
                break
            except BaseException as e:  # noqa
                res.harness_error = "".join(traceback.format_exception(type(e), e, e.__traceback__))[-4000:]
                break
        if state["fail"] is not None:
            res.violations.append(state["fail"])
        res.nontrivial_fps = sorted(fps)
        res.samples = res.samples + trivial_samples
        res.wall_s = time.time() - t0
        return res
    test = given(strat)(body)
    test = hseed(derive_seed(base_seed, sc.prop, sc.name, shard))(test)
    test = settings(
        max_examples=n,
        database=None,
        deadline=None,
        derandomize=False,
        report_multiple_bugs=False,
        phases=phases,
        suppress_health_check=list(HealthCheck),
        print_blob=False,
    )(test)
    try:
        test()
    except _Fail:
        pass
    except hypothesis.errors.Flaky:
        # raised when the shrink budget made the final replay pass; the recorded case stands
        if state["fail"] is None:
            res.harness_error = "Flaky without recorded failure:\n" + traceback.format_exc()
    except BaseException as e:  # noqa
        if state["fail"] is None or not isinstance(e, Exception):
            res.harness_error = "".join(traceback.format_exception(type(e), e, e.__traceback__))[-4000:]
    if state["fail"] is not None:
        res.violations.append(state["fail"])
    res.nontrivial_fps = sorted(fps)
    res.samples = res.samples + trivial_samples
    res.wall_s = time.time() - t0
    return res


def replay_case(sc: SubCheck, case):
    """Re-run one stored case through the same oracle, no Hypothesis."""
    findings = load_known_findings()
    status, payload = run_case(sc, case)
    if status == "violation":
        kf = match_known(sc, case, payload, findings)
        return status, payload, kf
    return status, payload, None
