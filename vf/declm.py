"""Test language models for the decoding properties (C04, C05, C07).

``HashLM`` is a sequential language model whose next-token logits depend on the *whole*
history through a rolling hash that is carried **only in the ``prev`` dictionary**: a step
reads the state left by the previous step and the single newest token, never the rest of
``hist``.  A search that mis-orders, drops or duplicates model state therefore reports
scores that differ from the from-scratch chain, which ``py_*`` below compute in pure Python
(float64) from the same JSON specification.

spec = {"V": int, "M": int (number of hash states), "mult": int,
        "table": M x V ints, "cond": C x V ints, "q": int (logit = int / q)}

state after consuming nothing   : 0
consuming token x (sos = V)     : s <- (s * mult + x + 1) mod M
logits of the next token        : (table[s] + cond[c]) / q     (c = per-batch-element condition)
"""
from __future__ import annotations

import math
from typing import Dict, List, Optional, Sequence, Tuple

from . import core  # noqa: F401  (puts VERIF_REPO_SRC on sys.path before the library is imported)

import torch
from hypothesis import strategies as st

from pydrobert.torch.modules import MixableSequentialLanguageModel


class StepCap(core.Reject):
    """Raised by a capped model when a search runs past the cap: the case (an unbounded search
    that does not stop within the harness' step bound) is outside the explored domain."""


class Transient(RuntimeError):
    """Raised once by a HashLM whose ``fail_next`` was set: an interrupted / failed model call (the harness catches it)."""


class HashLM(MixableSequentialLanguageModel):
    fail_next = False  # set on an instance: its next step raises Transient (once)
    mutating = False   # set on an instance: the model writes its state into the very dict it was handed (and returns it)

    def __init__(self, spec: dict, cap: Optional[int] = None):
        super().__init__(int(spec["V"]))
        self.spec = spec
        self.M = int(spec["M"])
        self.mult = int(spec["mult"])
        self.q = float(spec.get("q", 4))
        self.register_buffer("table", torch.tensor(spec["table"], dtype=torch.long).view(self.M, self.vocab_size))
        self.register_buffer("cond", torch.tensor(spec["cond"], dtype=torch.long).view(-1, self.vocab_size))
        ninf = torch.zeros(self.M, self.vocab_size, dtype=torch.bool)
        for st_, tok in spec.get("ninf", []):
            ninf[int(st_), int(tok)] = True
        self.register_buffer("ninf", ninf)
        self.cap = cap
        self.calls = 0

    # -- state handling -------------------------------------------------------------
    def update_input(self, prev: Dict[str, torch.Tensor], hist: torch.Tensor) -> Dict[str, torch.Tensor]:
        N = hist.size(1)
        out = prev if self.mutating else dict(prev)
        if "cond" not in out:
            out["cond"] = torch.zeros(N, dtype=torch.long)
        if "state" not in out:
            out["state"] = torch.zeros(out["cond"].size(0), dtype=torch.long)
        return out

    def extract_by_src(self, prev: Dict[str, torch.Tensor], src: torch.Tensor) -> Dict[str, torch.Tensor]:
        return {k: v.index_select(0, src) for k, v in prev.items()}

    def mix_by_mask(self, prev_true, prev_false, mask):
        return {k: torch.where(mask, prev_true[k], prev_false[k]) for k in prev_true}

    # -- the model --------------------------------------------------------------------
    def calc_idx_log_probs(self, hist: torch.Tensor, prev: Dict[str, torch.Tensor], idx: torch.Tensor
                           ) -> Tuple[torch.Tensor, Dict[str, torch.Tensor]]:
        self.calls += 1
        if self.fail_next:
            self.fail_next = False
            raise Transient("HashLM: scripted failure of one model call")
        V = self.vocab_size
        state, cond = prev["state"], prev["cond"]
        N = state.size(0)
        if hist.size(1) != N:
            raise AssertionError("HashLM: hist has %d columns but prev has %d rows" % (hist.size(1), N))
        idx = idx.expand(N) if idx.dim() == 0 else idx
        if self.cap is not None and int(idx.max().item()) > self.cap:
            raise StepCap()
        if hist.size(0) == 0:
            tok = torch.full((N,), V, dtype=torch.long)
        else:
            tok = hist.gather(0, (idx - 1).clamp(min=0).unsqueeze(0)).squeeze(0).clamp(0, V - 1)
            tok = torch.where(idx == 0, torch.full_like(tok, V), tok)
        new_state = (state * self.mult + tok + 1) % self.M
        logits = (self.table.index_select(0, new_state) + self.cond.index_select(0, cond)).to(torch.float32) / self.q
        # optional zero-probability tokens (spec["ninf"] = [[state, token], ...])
        logits = logits.masked_fill(self.ninf.index_select(0, new_state), float("-inf"))
        if self.mutating:
            prev["state"] = new_state
            return logits, prev
        return logits, {"state": new_state, "cond": cond}


# ------------------------------------------------------------------ pure Python mirror


def py_state(spec: dict, tokens: Sequence[int]) -> int:
    V, M, mult = spec["V"], spec["M"], spec["mult"]
    s = (0 * mult + V + 1) % M
    for x in tokens:
        s = (s * mult + int(x) + 1) % M
    return s


def py_next_logits(spec: dict, cond: int, tokens: Sequence[int]) -> List[float]:
    if "fusion" in spec:
        # the library's shallow fusion of two models: first + beta * second (then normalised by the search)
        s1, s2, beta = spec["fusion"]
        return [a + beta * b for a, b in zip(py_next_logits(s1, cond, tokens), py_next_logits(s2, cond, tokens))]
    q = float(spec.get("q", 4))
    s = py_state(spec, tokens)
    dead = {int(t) for st_, t in spec.get("ninf", []) if int(st_) == s}
    return [float("-inf") if v in dead else (a + b) / q
            for v, (a, b) in enumerate(zip(spec["table"][s], spec["cond"][cond]))]


def log_softmax(xs: Sequence[float]) -> List[float]:
    m = max(xs)
    z = m + math.log(sum(math.exp(x - m) for x in xs))
    return [x - z for x in xs]


def py_next_log_probs(spec: dict, cond: int, tokens: Sequence[int]) -> List[float]:
    return log_softmax(py_next_logits(spec, cond, tokens))


def py_chain(spec: dict, cond: int, tokens: Sequence[int]) -> float:
    """log P(tokens) = sum_s log P(tokens[s] | tokens[:s]) computed from scratch."""
    tot = 0.0
    for s, x in enumerate(tokens):
        tot += py_next_log_probs(spec, cond, tokens[:s])[int(x)]
    return tot


# ------------------------------------------------------------------------- strategies


def lm_specs(min_V=1, max_V=4, max_cond=3, q=4, lo=-12, hi=12, distinct_rows=True, min_cond=1, zero_prob=False):
    """Strategy for HashLM specifications (plain JSON)."""

    @st.composite
    def _spec(draw):
        # Hypothesis runs many examples whose tail is "all simplest": keep the simplest values interesting
        Vs = list(range(min_V, max_V + 1))
        mid = Vs[min(len(Vs) - 1, 2 if len(Vs) > 2 else len(Vs) - 1)]
        V = draw(st.sampled_from([mid] + [v for v in Vs if v != mid]))
        M = draw(st.sampled_from([3, 5, 7, 2, 1]))
        mult = draw(st.sampled_from([2, 1, 3]))
        row = st.lists(st.integers(lo, hi), min_size=V, max_size=V, unique=distinct_rows and (hi - lo + 1) >= V)
        table = draw(st.lists(row, min_size=M, max_size=M))
        C = draw(st.integers(min_cond, max_cond))
        crow = st.lists(st.integers(-16, 16), min_size=V, max_size=V)
        cond = draw(st.lists(crow, min_size=C, max_size=C))
        spec = {"V": V, "M": M, "mult": mult, "table": table, "cond": cond, "q": q}
        if zero_prob and V >= 2:
            # some (state, token) pairs get probability exactly zero; every state keeps a live token
            dead = []
            for s_ in range(M):
                toks = draw(st.lists(st.integers(0, V - 1), unique=True, max_size=V - 1))
                dead.extend([s_, t] for t in toks)
            spec["ninf"] = dead
        return spec

    return _spec()


# ---------------------------------------------------------------- large models, fast chain
#
# Added for the size / call-pattern classes of C04, C05 and C07.  Nothing above is changed.


def expand_spec(small: dict) -> dict:
    """A HashLM specification with a large vocabulary as a pure function of a few integers.

    small = {"V", "M", "mult", "C", "seed", "q" (optional), "ninf_every" (optional)}.
    Row s of the table is v -> (a_s * (v + 1)) mod P with P the smallest prime > V and a_s in 1..P-1:
    a permutation of distinct values, so next-token logits (k/q grid) have no ties within a state.
    Condition rows are small pseudo-random offsets in [-16, 16]."""
    from .declayout import lcg_ints, next_prime

    V, M, C = int(small["V"]), int(small["M"]), int(small["C"])
    P = next_prime(V + 1)
    a = lcg_ints(small["seed"], M, 1, P - 1)
    table = [[(a[s] * (v + 1)) % P for v in range(V)] for s in range(M)]
    flat = lcg_ints(int(small["seed"]) + 1, C * V, -16, 16)
    cond = [flat[c * V:(c + 1) * V] for c in range(C)]
    spec = {"V": V, "M": M, "mult": int(small["mult"]), "table": table, "cond": cond, "q": small.get("q", 4)}
    return spec


class PyLM:
    """Pure-Python mirror of HashLM with the log-softmax rows cached per (state, condition): the chain
    of a path costs O(length) after the rows it visits have been computed once (float64, math.fsum)."""

    def __init__(self, spec: dict):
        self.spec = spec
        self.V, self.M, self.mult = int(spec["V"]), int(spec["M"]), int(spec["mult"])
        self.q = float(spec.get("q", 4))
        self.dead = {}
        for st_, t in spec.get("ninf", []):
            self.dead.setdefault(int(st_), set()).add(int(t))
        self.rows: Dict[Tuple[int, int], List[float]] = {}

    def row(self, cond: int, state: int) -> List[float]:
        key = (cond, state)
        r = self.rows.get(key)
        if r is None:
            dead = self.dead.get(state, ())
            xs = [float("-inf") if v in dead else (a + b) / self.q
                  for v, (a, b) in enumerate(zip(self.spec["table"][state], self.spec["cond"][cond]))]
            m = max(xs)
            z = m + math.log(math.fsum(math.exp(x - m) for x in xs))
            r = [x - z for x in xs]
            self.rows[key] = r
        return r

    def chain(self, cond: int, tokens: Sequence[int]) -> float:
        s = (0 * self.mult + self.V + 1) % self.M
        terms = []
        for x in tokens:
            terms.append(self.row(cond, s)[int(x)])
            s = (s * self.mult + int(x) + 1) % self.M
        return math.fsum(terms)

    def next_log_probs(self, cond: int, tokens: Sequence[int]) -> List[float]:
        s = (0 * self.mult + self.V + 1) % self.M
        for x in tokens:
            s = (s * self.mult + int(x) + 1) % self.M
        return self.row(cond, s)


def make_lm(spec: dict, cap: Optional[int] = None):
    """HashLM for a plain specification; the library's MixableShallowFusionLanguageModel over two HashLMs
    (both carrying state under the same key names) for {"fusion": [spec1, spec2, beta], ...}."""
    if "fusion" in spec:
        from pydrobert.torch.modules import MixableShallowFusionLanguageModel

        s1, s2, beta = spec["fusion"]
        return MixableShallowFusionLanguageModel(HashLM(s1, cap=cap), HashLM(s2, cap=cap), float(beta))
    return HashLM(spec, cap=cap)


def initial_state(spec: dict, conds):
    t = torch.tensor(list(conds), dtype=torch.long)
    if "fusion" in spec:
        return {"first.cond": t, "second.cond": t.clone()}
    return {"cond": t}
