"""Helpers shared by C09 and C10: memory layouts, garbage in ignored regions, threshold sizes and a
pure integer hash used to expand large inputs from a few generated integers.

Everything here is a pure function of its arguments (no `random`, no global state).
"""
from __future__ import annotations

# sizes that cross typical implementation thresholds (blocked loops, special long-sequence paths)
THRESH = [15, 16, 17, 31, 32, 33, 63, 64, 65, 127, 128, 129, 255, 256, 257, 1023, 1024, 1025, 2049]
THRESH_SMALL = [v for v in THRESH if v <= 257]
_GROUPS = [16, 32, 64, 128, 256, 1024]


def thresh_label(v):
    """'16' for 15..17, ..., '1024' for 1023..1025, '2049' for >= 2049, None otherwise."""
    if v >= 2049:
        return "2049"
    for g in _GROUPS:
        if abs(v - g) <= 1:
            return str(g)
    return None


def size_classes(**dims):
    """size_classes(T=1024, N=3) -> ['T_at_1024']"""
    out = []
    for k, v in sorted(dims.items()):
        lab = thresh_label(v)
        if lab is not None:
            out.append("%s_at_%s" % (k, lab))
    return out


_M64 = (1 << 64) - 1


def mix(seed, *idx):
    """splitmix64-style hash of (seed, idx...) -> integer in [0, 2^64)."""
    z = (int(seed) * 0x9E3779B97F4A7C15 + 0x1234567) & _M64
    for i in idx:
        z = (z + (int(i) + 1) * 0xBF58476D1CE4E5B9) & _M64
        z ^= z >> 30
        z = (z * 0xBF58476D1CE4E5B9) & _M64
        z ^= z >> 27
        z = (z * 0x94D049BB133111EB) & _M64
        z ^= z >> 31
    return z


def pick(lo, hi, seed, *idx):
    """Deterministic integer in [lo, hi] (hi >= lo)."""
    return lo + mix(seed, *idx) % (hi - lo + 1)


def dim_size_from(fields, dims, groups):
    """(dimension name, threshold size) as a pure function of the other generated fields of a case (a dict of
    plain JSON data).  Hypothesis produces most examples by mutating earlier ones, so a directly drawn
    (dimension, size) pair comes out very unevenly (whole threshold groups missing in runs of a few hundred
    examples); hashing the rest of the case re-draws the pair for every distinct example, which makes every
    (dimension, group) combination about equally frequent.  A group g stands for g-1, g, g+1; 2049 for itself."""
    import hashlib
    import json

    dims, groups = list(dims), list(groups)
    h = int.from_bytes(hashlib.sha256(json.dumps(fields, sort_keys=True).encode()).digest()[:8], "big")
    dim = dims[mix(h, 1) % len(dims)]
    g = groups[mix(h, 2) % len(groups)]
    return dim, (g if g == 2049 else g + mix(h, 3) % 3 - 1)


GROUPS = [16, 32, 64, 128, 256, 1024, 2049]


# ------------------------------------------------------------------ memory layouts

# "contiguous": own storage.  "offset": rows 2..2+n of a taller tensor (contiguous, storage offset != 0).
# "inner": a block strictly inside a tensor that is larger along every dimension (offset, non-contiguous).
# "strided": every second row of a tensor twice as tall, starting at row 1.  "transposed": the transpose of a
# contiguous tensor holding the transposed data (non-contiguous, no offset).  "last_strided": every second
# element along the last dimension.  "expanded": stride 0 along dimension 0 (only when all rows are equal).
LAYOUTS = ["contiguous", "offset", "inner", "strided", "transposed", "last_strided", "expanded"]


def _junk_for(t):
    import torch

    if t.dtype == torch.bool:
        return True
    if t.is_floating_point():
        return float("nan")
    return 777


def lay(t, layout, junk=None):
    """A tensor with the values of `t` in the requested memory layout.  What surrounds the view in its
    storage is `junk` (NaN for floating point data, 777 for integers, True for booleans)."""
    import torch

    if layout in (None, "contiguous") or t.ndim == 0:
        return t
    if junk is None:
        junk = _junk_for(t)
    n0 = t.shape[0]
    rest = tuple(t.shape[1:])
    if layout == "offset":
        big = torch.full((n0 + 3,) + rest, junk, dtype=t.dtype)
        big[2:2 + n0] = t
        out = big[2:2 + n0]
    elif layout == "inner":
        big = torch.full(tuple(s + 2 for s in t.shape), junk, dtype=t.dtype)
        idx = tuple(slice(1, 1 + s) for s in t.shape)
        big[idx] = t
        out = big[idx]
    elif layout == "strided" or (layout == "transposed" and t.ndim < 2):
        big = torch.full((2 * n0 + 1,) + rest, junk, dtype=t.dtype)
        big[1:2 * n0:2] = t
        out = big[1:2 * n0:2]
    elif layout == "transposed":
        out = t.transpose(0, 1).contiguous().transpose(0, 1)
    elif layout == "last_strided":
        if t.ndim < 2:
            return lay(t, "strided", junk)
        big = torch.full(tuple(t.shape[:-1]) + (2 * t.shape[-1],), junk, dtype=t.dtype)
        big[..., ::2] = t
        out = big[..., ::2]
    elif layout == "expanded":
        if n0 >= 2 and bool((t == t[:1]).all()):
            out = t[:1].expand(t.shape)
        else:
            return t
    else:
        raise ValueError("harness: unknown layout %r" % (layout,))
    assert tuple(out.shape) == tuple(t.shape), (layout, out.shape, t.shape)
    return out


def layout_class(prefix, t, layout):
    """Class label describing what the tensor actually is (a requested layout may degenerate)."""
    if layout in (None, "contiguous"):
        return None
    if layout == "expanded" and not (t.ndim >= 1 and t.shape[0] >= 2 and t.stride(0) == 0):
        return None
    return "%s_%s" % (prefix, layout)


# ------------------------------------------------------------------ garbage in ignored regions

GARBAGE = ["nan", "inf", "-inf", "huge", "mixed"]


def garbage_values(dtype_name):
    """Values written where the documentation says nothing is read."""
    if dtype_name.startswith("float"):
        huge = 3.0e38 if dtype_name == "float32" else 1.0e308
        return {"nan": [float("nan")], "inf": [float("inf")], "-inf": [float("-inf")], "huge": [huge, -huge],
                "mixed": [float("nan"), float("inf"), float("-inf"), huge, -huge]}
    if dtype_name == "int32":
        big = 2 ** 31 - 1
    else:
        big = 2 ** 62
    vals = [big, -big]
    return {"nan": vals, "inf": [big], "-inf": [-big], "huge": vals, "mixed": vals + [-1, 0]}


def fill_beyond(x, lens, kind, dtype_name, dim=1):
    """In-place: x[n, lens[n]:] (sequence dimension `dim`, batch dimension the other of 0/1) := garbage."""
    if kind in (None, "none"):
        return False
    import torch

    vals = garbage_values(dtype_name)[kind]
    wrote = False
    T = x.shape[dim]
    for n, L in enumerate(lens):
        cnt = T - L
        if cnt <= 0:
            continue
        pat = torch.tensor([vals[(n + k) % len(vals)] for k in range(cnt)], dtype=x.dtype)
        pat = pat.view((cnt,) + (1,) * (x.ndim - 2))
        if dim == 1:
            x[n, L:] = pat
        else:
            x[L:, n] = pat
        wrote = True
    return wrote
