"""CLI:  python -m vf.run <ID> [--tier quick|thorough] [--replay FILE] [--only SUB] [--jobs N]

Exit status: 0 = property held on everything explored, 1 = violation (a line
``VIOLATION property=<ID> replay=<path>`` is printed), 2 = harness error (never a
verdict about the code under test).

The parent process never imports torch: it starts one worker process per (sub-check,
shard) unit, at most --jobs at a time, and merges their results into the evidence file.
"""
from __future__ import annotations

import argparse
import importlib
import json
import os
import shutil
import subprocess
import sys
import tempfile
import time

from . import core

VERIF_DIR = core.VERIF_DIR

LEVELS = {"C16": "fault_enumeration"}


def load_prop(pid: str):
    importlib.import_module("vf.props.%s" % pid.lower())
    return core.REGISTRY[pid]


def worker_main(args):
    import torch

    torch.set_num_threads(1)
    subs = {s.name: s for s in load_prop(args.prop)}
    sc = subs[args.unit]
    seed = int(os.environ.get("VERIF_SEED", "1"))
    res = core.run_unit(sc, args.tier, seed, args.shard, args.nshards,
                        max_examples=args.max_examples)
    with open(args.out, "w") as f:
        json.dump(res.__dict__, f)
    return 0


def replay_main(args):
    import torch

    torch.set_num_threads(1)
    with open(args.replay) as f:
        rec = json.load(f)
    pid = rec.get("property", args.prop)
    subs = {s.name: s for s in load_prop(pid)}
    sc = subs[rec["subcheck"]]
    status, payload, kf = core.replay_case(sc, rec["case"])
    if status == "violation":
        if kf is not None:
            print("KNOWN-FINDING: property=%s %s" % (pid, kf["what"]))
            return 0
        print("replay: %s" % json.dumps(payload)[:2000])
        print("VIOLATION property=%s replay=%s" % (pid, args.replay))
        return 1
    print("replay: %s (%s)" % (status, args.replay))
    return 0


def _spawn(pid, sub, tier, shard, nshards, out, max_examples):
    cmd = [sys.executable, "-m", "vf.run", pid, "--worker", "--unit", sub, "--tier", tier,
           "--shard", str(shard), "--nshards", str(nshards), "--out", out]
    if max_examples is not None:
        cmd += ["--max-examples", str(max_examples)]
    env = dict(os.environ)
    env.setdefault("PYTHONHASHSEED", "0")
    env["OMP_NUM_THREADS"] = "1"
    env["MKL_NUM_THREADS"] = "1"
    log = open(out + ".log", "w")
    return subprocess.Popen(cmd, cwd=VERIF_DIR, env=env, stdout=log, stderr=subprocess.STDOUT)


def main(argv=None):
    ap = argparse.ArgumentParser()
    ap.add_argument("prop")
    ap.add_argument("--tier", default=os.environ.get("VERIF_TIER", "quick"), choices=["quick", "thorough"])
    ap.add_argument("--replay")
    ap.add_argument("--only", action="append")
    ap.add_argument("--jobs", type=int, default=None)
    ap.add_argument("--max-examples", type=int, default=None)
    ap.add_argument("--no-evidence", action="store_true")
    # worker mode
    ap.add_argument("--worker", action="store_true")
    ap.add_argument("--unit")
    ap.add_argument("--shard", type=int, default=0)
    ap.add_argument("--nshards", type=int, default=1)
    ap.add_argument("--out")
    args = ap.parse_args(argv)
    args.prop = args.prop.upper()

    if args.worker:
        return worker_main(args)
    if args.replay:
        return replay_main(args)

    t0 = time.time()
    seed = int(os.environ.get("VERIF_SEED", "1"))
    pid = args.prop
    # The parent needs the registry (names, budgets) but must stay light: importing the
    # property module imports torch lazily inside functions only where possible; to be
    # safe we ask a child for the list.
    listing = subprocess.run(
        [sys.executable, "-c",
         "import json,sys; from vf import run, core; subs=run.load_prop(%r); "
         "print('@@'+json.dumps([[s.name,s.quick,s.thorough,s.required_classes,s.timeout_s,s.doc,s.exhaustive] for s in subs]))" % pid],
        cwd=VERIF_DIR, capture_output=True, text=True,
        env=dict(os.environ, PYTHONHASHSEED=os.environ.get("PYTHONHASHSEED", "0")))
    line = [l for l in listing.stdout.splitlines() if l.startswith("@@")]
    if listing.returncode != 0 or not line:
        sys.stderr.write(listing.stdout + listing.stderr)
        print("HARNESS-ERROR property=%s cannot load sub-checks" % pid)
        return 2
    subs = json.loads(line[0][2:])
    if args.only:
        subs = [s for s in subs if s[0] in args.only]
    ncpu = os.cpu_count() or 1
    jobs = args.jobs or (min(8, ncpu) if args.tier == "quick" else ncpu)
    tmp = tempfile.mkdtemp(prefix="vf_%s_" % pid)
    try:
        return _run_all(args, pid, subs, seed, jobs, tmp, t0)
    finally:
        shutil.rmtree(tmp, ignore_errors=True)


def _run_all(args, pid, subs, seed, jobs, tmp, t0):
    units = []
    for name, quick, thorough, req, timeout_s, doc, exhaustive in subs:
        if exhaustive:
            nsh = 2 if args.tier == "quick" else 8
        elif args.tier == "quick":
            nsh = 1 if quick < 1500 else 2
        else:
            nsh = max(1, min(16, thorough // 200))
        for sh in range(nsh):
            units.append((name, sh, nsh, timeout_s))
    # longest first is unknown; interleave shards so every sub-check starts early
    units.sort(key=lambda u: u[1])
    pending = list(units)
    running = []
    results = []
    harness_errors = []
    while pending or running:
        while pending and len(running) < jobs:
            name, sh, nsh, timeout_s = pending.pop(0)
            out = os.path.join(tmp, "%s-%d.json" % (name, sh))
            p = _spawn(pid, name, args.tier, sh, nsh, out, args.max_examples)
            running.append((p, name, sh, out, time.time(), timeout_s))
        time.sleep(0.05)
        still = []
        for p, name, sh, out, ts, timeout_s in running:
            rc = p.poll()
            if rc is None:
                if time.time() - ts > timeout_s:
                    p.kill()
                    harness_errors.append("%s[%d]: wall-clock guard (%ds) tripped - inconclusive" % (name, sh, timeout_s))
                else:
                    still.append((p, name, sh, out, ts, timeout_s))
                continue
            if rc != 0 or not os.path.exists(out):
                log = ""
                try:
                    log = open(out + ".log").read()[-3000:]
                except Exception:
                    pass
                harness_errors.append("%s[%d]: worker exit %s\n%s" % (name, sh, rc, log))
                continue
            with open(out) as f:
                results.append(json.load(f))
        running = still

    # replay tier: committed regression cases
    replay_dir = os.path.join(VERIF_DIR, "replays", pid)
    replay_results = []
    if os.path.isdir(replay_dir) and not args.only:
        files = sorted(f for f in os.listdir(replay_dir) if f.endswith(".json"))
        if files:
            code = (
                "import json,sys,torch; torch.set_num_threads(1); from vf import run, core\n"
                "subs={s.name:s for s in run.load_prop(%r)}\n"
                "out=[]\n"
                "for fn in sys.argv[1:]:\n"
                "    rec=json.load(open(fn))\n"
                "    st,pl,kf=core.replay_case(subs[rec['subcheck']],rec['case'])\n"
                "    out.append([fn,st,pl if st=='violation' else None,kf])\n"
                "print('@@'+json.dumps(out))\n" % pid)
            r = subprocess.run([sys.executable, "-c", code] + [os.path.join(replay_dir, f) for f in files],
                               cwd=VERIF_DIR, capture_output=True, text=True,
                               env=dict(os.environ, PYTHONHASHSEED=os.environ.get("PYTHONHASHSEED", "0")))
            line = [l for l in r.stdout.splitlines() if l.startswith("@@")]
            if r.returncode != 0 or not line:
                harness_errors.append("replay tier failed:\n" + r.stdout[-2000:] + r.stderr[-3000:])
            else:
                replay_results = json.loads(line[0][2:])

    # ---- merge
    by_sub = {}
    total_eval = 0
    fps = set()
    classes = {}
    samples = []
    known = {}
    known_samples = {}
    violations = []
    rejected = 0
    for r in results:
        d = by_sub.setdefault(r["sub"], {"evaluations": 0, "distinct_nontrivial": set(), "classes": {}, "wall_s": 0.0})
        d["evaluations"] += r["evaluations"]
        d["wall_s"] += r["wall_s"]
        rejected += r["rejected"]
        for fp in r["nontrivial_fps"]:
            d["distinct_nontrivial"].add(fp)
            fps.add(r["sub"] + ":" + fp)
        for c, n in r["classes"].items():
            d["classes"][c] = d["classes"].get(c, 0) + n
            classes[r["sub"] + "." + c] = classes.get(r["sub"] + "." + c, 0) + n
        total_eval += r["evaluations"]
        if r["shard"] == 0:
            for s in r["samples"][:3]:
                samples.append(dict(s, subcheck=r["sub"]))
        for k, n in r["known"].items():
            known[k] = known.get(k, 0) + n
        for k, s in r["known_samples"].items():
            known_samples.setdefault(k, s)
        for v in r["violations"]:
            violations.append((r["sub"], v))
        if r["harness_error"]:
            harness_errors.append("%s[%d]: %s" % (r["sub"], r["shard"], r["harness_error"]))

    findings = [f for f in core.load_known_findings() if f.get("property") == pid and f.get("kind") == "finding"]
    kf_by_id = {f["id"]: f for f in findings}
    printed_kf = set()
    for fn, st, pl, kf in replay_results:
        total_eval += 1
        if st == "violation":
            if kf is not None:
                known[kf["id"]] = known.get(kf["id"], 0) + 1
            else:
                violations.append(("replay:" + os.path.basename(fn), {"case": None, "violation": pl, "replay_path": fn}))
    for k in sorted(known):
        if k in kf_by_id and k not in printed_kf:
            printed_kf.add(k)
            print("KNOWN-FINDING: property=%s %s [%s; matched %d case(s) this run]" % (pid, kf_by_id[k]["what"], k, known[k]))

    # vacuity guard
    vacuity = []
    for name, quick, thorough, req, timeout_s, doc, exhaustive in subs:
        d = by_sub.get(name)
        if d is None:
            continue
        for c in req:
            if d["classes"].get(c, 0) == 0:
                vacuity.append("%s: required class %r never generated" % (name, c))

    exhaustive_subs = {s[0] for s in subs if s[6]}
    rc = 0
    found_dir = os.path.join(VERIF_DIR, "found", pid)
    seen_paths = set()
    for sub, v in violations:
        rc = 1
        if v.get("replay_path"):
            path = v["replay_path"]
        else:
            os.makedirs(found_dir, exist_ok=True)
            path = os.path.join(found_dir, "%s-%s.json" % (sub, core.fingerprint(v["case"])))
            with open(path, "w") as f:
                json.dump({"property": pid, "subcheck": sub, "case": v["case"], "violation": v["violation"],
                           "seed": seed, "tier": args.tier}, f, indent=1, sort_keys=True)
        if path in seen_paths:
            continue
        seen_paths.add(path)
        print("  sub-check %s: %s" % (sub, json.dumps(v["violation"])[:1500]))
        print("VIOLATION property=%s replay=%s" % (pid, os.path.relpath(path, VERIF_DIR)))

    wall = time.time() - t0
    if not args.no_evidence and not args.only:
        ev = {
            "property_id": pid,
            "tier": args.tier,
            "seed": seed,
            "level": LEVELS.get(pid, "exploration"),
            "coverage": {
                "evaluations": total_eval,
                "distinct_nontrivial": len(fps),
                "rule": _rule_text(pid),
                "samples": samples[:24],
                "per_subcheck": {k: {"evaluations": d["evaluations"], "distinct_nontrivial": len(d["distinct_nontrivial"]),
                                      "classes": d["classes"], "cpu_s": round(d["wall_s"], 2),
                                      "exhaustive_enumeration": k in exhaustive_subs} for k, d in sorted(by_sub.items())},
                "subcheck_docs": {s[0]: s[5] for s in subs},
                "rejected_out_of_domain": rejected,
                "excluded_by_known_findings": known,
                "known_finding_samples": known_samples,
                "replayed_regression_cases": len(replay_results),
                "exhaustive": False,
                "vacuity_warnings": vacuity,
            },
            "assumptions": _assumptions(pid),
            "wall_s": round(wall, 2),
            "violations": len(violations),
        }
        os.makedirs(os.path.join(VERIF_DIR, "evidence"), exist_ok=True)
        with open(os.path.join(VERIF_DIR, "evidence", "%s.json" % pid), "w") as f:
            json.dump(ev, f, indent=1, sort_keys=True)
    print("%s tier=%s seed=%d: %d cases, %d distinct non-trivial, %d violation(s), %d known-finding hit(s), %.1fs"
          % (pid, args.tier, seed, total_eval, len(fps), len(violations), sum(known.values()), wall))
    for w in vacuity:
        print("WARNING vacuity: " + w)
    if harness_errors:
        for h in harness_errors:
            sys.stderr.write("HARNESS-ERROR %s\n" % h)
        if rc == 0:
            print("HARNESS-ERROR property=%s (%d unit(s)); no verdict" % (pid, len(harness_errors)))
            return 2
    if rc == 0 and vacuity and args.tier == "thorough":
        print("HARNESS-ERROR property=%s generator misses a required class; no verdict" % pid)
        return 2
    return rc


def _meta(pid):
    with open(os.path.join(VERIF_DIR, "vf", "props", "meta", "%s.json" % pid)) as f:
        return json.load(f)


def _rule_text(pid):
    try:
        return _meta(pid)["rule"]
    except Exception:
        return "see DESIGN.md section 2, %s" % pid


def _assumptions(pid):
    try:
        return _meta(pid)["assumptions"]
    except Exception:
        return []


if __name__ == "__main__":
    sys.exit(main())
