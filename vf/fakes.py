"""Harness-owned environments: simulated process group, controlled RNG, simulated worker
pool, crash injector.  Everything is installed by replacing module attributes for the
duration of a ``with`` block; nothing in /repo is edited.
"""
from __future__ import annotations

import contextlib

import torch


@contextlib.contextmanager
def patched(obj, **attrs):
    missing = object()
    old = {k: getattr(obj, k, missing) for k in attrs}
    try:
        for k, v in attrs.items():
            setattr(obj, k, v)
        yield
    finally:
        for k, v in old.items():
            if v is missing:
                try:
                    delattr(obj, k)
                except AttributeError:
                    pass
            else:
                setattr(obj, k, v)


@contextlib.contextmanager
def process_group(rank: int, world: int):
    """Make torch.distributed report an initialised group with this rank / world size."""
    import torch.distributed as dist

    with patched(
        dist,
        is_available=lambda: True,
        is_initialized=lambda: True,
        get_rank=lambda *a, **k: rank,
        get_world_size=lambda *a, **k: world,
    ):
        yield


class FakePool:
    """In-process stand-in for multiprocessing.Pool whose completion order is data.

    ``imap_unordered`` evaluates every item and yields the results in the permutation
    derived from ``order`` (a list of non-negative integers used as sort keys, cycled).
    ``imap`` keeps the ordered contract (results in submission order).
    """

    def __init__(self, order, log=None):
        self.order = list(order) or [0]
        self.log = log if log is not None else []

    # context-manager protocol of Pool
    def __enter__(self):
        return self

    def __exit__(self, *a):
        return False

    def close(self):
        pass

    def join(self):
        pass

    def terminate(self):
        pass

    def _perm(self, n):
        keys = [(self.order[i % len(self.order)], i) for i in range(n)]
        return [i for _, i in sorted(keys)]

    @staticmethod
    def _check_chunksize(chunksize):
        # multiprocessing.Pool refuses a chunk size below one
        if chunksize is not None and chunksize < 1:
            raise ValueError("Chunksize must be 1+, not {0:n}".format(chunksize))

    def imap_unordered(self, func, iterable, chunksize=1):
        self._check_chunksize(chunksize)
        items = list(iterable)
        results = [func(x) for x in items]
        perm = self._perm(len(results))
        self.log.append(("imap_unordered", len(items), perm))
        for i in perm:
            yield results[i]

    def imap(self, func, iterable, chunksize=1):
        self._check_chunksize(chunksize)
        items = list(iterable)
        perm = self._perm(len(items))
        results = [None] * len(items)
        for i in perm:  # completion order is generated, delivery order is submission order
            results[i] = func(items[i])
        self.log.append(("imap", len(items), perm))
        for r in results:
            yield r

    def map(self, func, iterable, chunksize=None):
        return list(self.imap(func, iterable))

    def starmap(self, func, iterable, chunksize=None):
        return [func(*a) for a in iterable]


class FakeContext:
    def __init__(self, order, log=None):
        self.order = order
        self.log = log if log is not None else []

    def Pool(self, processes=None, *a, **k):
        self.log.append(("Pool", processes))
        return FakePool(self.order, self.log)


@contextlib.contextmanager
def fake_torch_mp(order, log=None):
    """torch.multiprocessing.get_context(...) -> FakeContext with generated completion order."""
    import torch.multiprocessing as tmp

    ctx = FakeContext(order, log)
    with patched(tmp, get_context=lambda *a, **k: ctx, Pool=ctx.Pool):
        yield ctx


class ScriptedUniform:
    """Replacement for torch.rand / rand_like returning scripted values in [0, 1).

    Values are consumed cyclically from ``values`` (Python floats on the float32 grid).
    """

    def __init__(self, values):
        self.values = [float(v) for v in values] or [0.5]
        self.pos = 0
        self.calls = 0

    def _take(self, n):
        out = [self.values[(self.pos + i) % len(self.values)] for i in range(n)]
        self.pos += n
        self.calls += 1
        return out

    def rand(self, *size, **kw):
        if len(size) == 1 and isinstance(size[0], (tuple, list, torch.Size)):
            size = tuple(size[0])
        kw.pop("generator", None)
        kw.pop("out", None)
        dtype = kw.pop("dtype", None) or torch.get_default_dtype()
        device = kw.pop("device", None)
        n = 1
        for s in size:
            n *= int(s)
        t = torch.tensor(self._take(n), dtype=dtype, device=device).reshape(size)
        return t

    def rand_like(self, x, **kw):
        dtype = kw.pop("dtype", None) or x.dtype
        return self.rand(*x.shape, dtype=dtype, device=x.device)


@contextlib.contextmanager
def scripted_uniform(values):
    su = ScriptedUniform(values)
    with patched(torch, rand=su.rand, rand_like=su.rand_like):
        yield su
